// C09, third sentence, for COMPILER-GENERATED zones: "For every shipped or compiler-generated zone and every year,
// the extended processor's transition pool high-water mark stays below the size recorded for the zone and below
// its capacity, and the basic processor never needs more than its five cache slots."
// The zone files compiled into this tool were generated a moment ago by the tree's own tools/tzcompiler.py from the
// reconstructed + synthetic TZ source (namespaces zonedbxgen / zonedbgen). Built with ASan + UBSan.
//   genm3 list                 -> one line per generated zone
//   genm3 sweep                -> every zone x every year 1998..2052 x four instants, fresh processor per year,
//                                 then one processor walking the years up and down (cumulative high-water mark)
// The bound is asserted for every year whose fill the processor accepts; a rejected year never touches the pool.
//   genm3 one <x|b> <name> <year>
#include <AceTime.h>
#include <stdio.h>
#include <string.h>
#include <stdlib.h>
#include "x/zone_infos.h"
#include "x/zone_registry.h"
#include "b/zone_infos.h"
#include "b/zone_registry.h"

#if ACE_TIME_VERIF_HOOKS
extern "C" { unsigned long ace_time_verif_basic_dropped = 0; }
#else
static unsigned long ace_time_verif_basic_dropped = 0;
#endif

using namespace ace_time;

static const int kCapacity = 8;   // ExtendedZoneProcessor::kMaxTransitions

static int64_t epochOfYearStart(int y) {
  int64_t days = 0;
  if (y >= 2000) for (int k = 2000; k < y; k++) days += ((k % 4 == 0 && k % 100 != 0) || k % 400 == 0) ? 366 : 365;
  else for (int k = y; k < 2000; k++) days -= ((k % 4 == 0 && k % 100 != 0) || k % 400 == 0) ? 366 : 365;
  return days * 86400;
}
static const int kDayOffsets[4] = {0, 90, 182, 364};

static unsigned long g_checks = 0, g_viol = 0;

static void violation(const char* db, const char* name, int year, const char* what) {
  printf("GENM3VIOL db=%s zone=%s year=%d %s\n", db, name, year, what);
  g_viol++;
}

// The name-printing operations of a time zone bound to a generated zone: generated names are not bounded by the
// longest shipped one (the source has last components of 16 and of 40 characters). Memory safety only - what is
// printed is not this property's business; the sanitizers watch the call.
static void printNames(const TimeZone& tz) {
  StrPrint sp;
  tz.printTo(sp);
  sp.clear();
  tz.printShortTo(sp);
  g_checks++;
}

static void askExtended(ExtendedZoneProcessor& proc, const extended::ZoneInfo* info, int year, bool freshMark) {
  TimeZone tz = TimeZone::forZoneInfo(info, &proc);
  if (year % 16 == 0) printNames(tz);
  const int recorded = info->transitionBufSize;
  for (int k = 0; k < 4; k++) {
    if (freshMark) proc.resetTransitionHighWater();
    acetime_t t = (acetime_t)(epochOfYearStart(year) + (int64_t)kDayOffsets[k] * 86400 + 3600);
    (void)tz.getUtcOffset(t);
    (void)tz.getAbbrev(t);
    LocalDateTime ldt = LocalDateTime::forComponents((int16_t)year, (uint8_t)(1 + 3 * k), 2, 1, 30, 0);
    (void)tz.getOffsetDateTime(ldt);
    int hw = proc.getTransitionHighWater();
    g_checks++;
    // every year whose fill the processor accepts counts (startYear-1 .. untilYear: the mark only moves when a fill ran)
    if (hw >= recorded || hw >= kCapacity) {
      char buf[160];
      snprintf(buf, sizeof buf, "highWater=%d recorded_transitionBufSize=%d capacity=%d %s", hw, recorded, kCapacity,
          freshMark ? "(fresh processor)" : "(one processor, years walked in sequence: the mark is cumulative, the fill that raised it may be an earlier year's)");
      violation("x", info->name, year, buf);
      return;
    }
  }
}

static void askBasic(BasicZoneProcessor& proc, const basic::ZoneInfo* info, int year) {
  TimeZone tz = TimeZone::forZoneInfo(info, &proc);
  if (year % 16 == 0) printNames(tz);
  for (int k = 0; k < 4; k++) {
    ace_time_verif_basic_dropped = 0;
    acetime_t t = (acetime_t)(epochOfYearStart(year) + (int64_t)kDayOffsets[k] * 86400 + 3600);
    (void)tz.getUtcOffset(t);
    (void)tz.getAbbrev(t);
    LocalDateTime ldt = LocalDateTime::forComponents((int16_t)year, (uint8_t)(1 + 3 * k), 2, 1, 30, 0);
    (void)tz.getOffsetDateTime(ldt);
    g_checks++;
    if (ace_time_verif_basic_dropped != 0) {
      char buf[120];
      snprintf(buf, sizeof buf, "the basic processor needed %lu more than its five cache slots", ace_time_verif_basic_dropped);
      violation("b", info->name, year, buf);
      return;
    }
  }
}

int main(int argc, char** argv) {
  const char* cmd = argc > 1 ? argv[1] : "sweep";
  if (!strcmp(cmd, "list")) {
    for (uint16_t i = 0; i < zonedbxgen::kZoneRegistrySize; i++) printf("x %s %d\n", zonedbxgen::kZoneRegistry[i]->name, (int)zonedbxgen::kZoneRegistry[i]->transitionBufSize);
    for (uint16_t i = 0; i < zonedbgen::kZoneRegistrySize; i++) printf("b %s\n", zonedbgen::kZoneRegistry[i]->name);
    return 0;
  }
  if (!strcmp(cmd, "one") && argc >= 5) {
    int year = atoi(argv[4]);
    if (argv[2][0] == 'x') {
      for (uint16_t i = 0; i < zonedbxgen::kZoneRegistrySize; i++) if (!strcmp(zonedbxgen::kZoneRegistry[i]->name, argv[3])) {
        { ExtendedZoneProcessor p; askExtended(p, zonedbxgen::kZoneRegistry[i], year, true); }
        if (!g_viol) {   // the same walk as the sweep: up, then down in steps of three
          ExtendedZoneProcessor p;
          for (int y = 1998; y <= 2052 && !g_viol; y++) askExtended(p, zonedbxgen::kZoneRegistry[i], y, false);
          for (int y = 2052; y >= 1998 && !g_viol; y -= 3) askExtended(p, zonedbxgen::kZoneRegistry[i], y, false);
        }
      }
    } else {
      for (uint16_t i = 0; i < zonedbgen::kZoneRegistrySize; i++) if (!strcmp(zonedbgen::kZoneRegistry[i]->name, argv[3])) {
        { BasicZoneProcessor p; askBasic(p, zonedbgen::kZoneRegistry[i], year); }
        if (!g_viol) { BasicZoneProcessor p; for (int y = 1998; y <= 2052 && !g_viol; y++) askBasic(p, zonedbgen::kZoneRegistry[i], y); }
      }
    }
    printf("GENM3 zones=1 checks=%lu violations=%lu\n", g_checks, g_viol);
    return 0;
  }
  unsigned long zones = 0;
  for (uint16_t i = 0; i < zonedbxgen::kZoneRegistrySize; i++) {
    const extended::ZoneInfo* info = zonedbxgen::kZoneRegistry[i];
    zones++;
    unsigned long before = g_viol;
    for (int year = 1998; year <= 2052 && g_viol == before; year++) { ExtendedZoneProcessor p; askExtended(p, info, year, true); }
    if (g_viol == before) {
      ExtendedZoneProcessor p;   // cumulative mark over a walk up and down the years
      for (int year = 1998; year <= 2052 && g_viol == before; year++) askExtended(p, info, year, false);
      for (int year = 2052; year >= 1998 && g_viol == before; year -= 3) askExtended(p, info, year, false);
    }
  }
  for (uint16_t i = 0; i < zonedbgen::kZoneRegistrySize; i++) {
    const basic::ZoneInfo* info = zonedbgen::kZoneRegistry[i];
    zones++;
    unsigned long before = g_viol;
    BasicZoneProcessor p;
    for (int year = 1998; year <= 2052 && g_viol == before; year++) askBasic(p, info, year);
  }
  printf("GENM3 zones=%lu checks=%lu violations=%lu\n", zones, g_checks, g_viol);
  return 0;
}
