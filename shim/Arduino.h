// Host shim for the Arduino core (STUB component; not part of seandst/AceTime).
// Only what /repo/src/ace_time needs when compiled with -DUNIX_HOST_DUINO.
#ifndef VERIF_SHIM_ARDUINO_H
#define VERIF_SHIM_ARDUINO_H
#include <stdint.h>
#include <stddef.h>
#include <string.h>
#include <stdlib.h>
#include <stdio.h>
#include "pgmspace.h"
#include "WString.h"
#include "Print.h"

#ifdef SIM_ULONG32
extern "C" unsigned int millis();   // matches SystemClock.h as compiled in the plain32 variant
#else
extern "C" unsigned long millis();
#endif

class SerialShim : public Print {
  public:
    size_t write(uint8_t) override { return 1; }  // discard
};
extern SerialShim Serial;
#define SERIAL_PORT_MONITOR Serial

#endif
