// Host shim for the Arduino Print class (STUB component).
#ifndef VERIF_SHIM_PRINT_H
#define VERIF_SHIM_PRINT_H
#include <stdint.h>
#include <stddef.h>
#include <string.h>
#include <stdio.h>
#include "WString.h"

class Print {
  public:
    virtual ~Print() {}
    virtual size_t write(uint8_t c) = 0;
    virtual size_t write(const uint8_t* buf, size_t n) {
      size_t k = 0;
      while (n--) k += write(*buf++);
      return k;
    }
    size_t write(const char* s) {
      return s ? write(reinterpret_cast<const uint8_t*>(s), strlen(s)) : 0;
    }
    size_t print(const char* s) { return write(s); }
    size_t print(const __FlashStringHelper* s) {
      return write(reinterpret_cast<const char*>(s));
    }
    size_t print(char c) { return write(static_cast<uint8_t>(c)); }
    size_t print(unsigned char v) { return printNum(static_cast<long long>(v)); }
    size_t print(int v) { return printNum(static_cast<long long>(v)); }
    size_t print(unsigned int v) { return printNum(static_cast<long long>(v)); }
    size_t print(long v) { return printNum(static_cast<long long>(v)); }
    size_t print(unsigned long v) { return printUNum(v); }
    size_t println() { return write("\r\n"); }
    template <typename T> size_t println(T v) {
      size_t n = print(v);
      return n + println();
    }
  private:
    size_t printNum(long long v) {
      char buf[32];
      snprintf(buf, sizeof(buf), "%lld", v);
      return write(buf);
    }
    size_t printUNum(unsigned long long v) {
      char buf[32];
      snprintf(buf, sizeof(buf), "%llu", v);
      return write(buf);
    }
};

// Bounded in-memory sink used by the simulator to capture printed text.
class StrPrint : public Print {
  public:
    StrPrint() { clear(); }
    size_t write(uint8_t c) override {
      if (mLen + 1 < sizeof(mBuf)) { mBuf[mLen++] = static_cast<char>(c); mBuf[mLen] = 0; }
      return 1;
    }
    using Print::write;
    void clear() { mLen = 0; mBuf[0] = 0; }
    const char* c_str() const { return mBuf; }
    size_t length() const { return mLen; }
  private:
    char mBuf[256];
    size_t mLen;
};
#endif
