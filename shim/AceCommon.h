// Host shim for the parts of the AceCommon library that AceTime uses (STUB component).
#ifndef VERIF_SHIM_ACE_COMMON_H
#define VERIF_SHIM_ACE_COMMON_H
#include <stdint.h>
#include <string.h>
#include "Print.h"
#include "pgmspace.h"

namespace ace_common {

inline void printPad2To(Print& printer, uint16_t val, char pad = ' ') {
  if (val < 10) printer.print(pad);
  printer.print(static_cast<unsigned int>(val));
}
inline void printPad3To(Print& printer, uint16_t val, char pad = ' ') {
  if (val < 100) printer.print(pad);
  if (val < 10) printer.print(pad);
  printer.print(static_cast<unsigned int>(val));
}

template <typename T> void incrementMod(T& d, T m) {
  d++;
  if (d >= m) d = 0;
}
template <typename T> void incrementModOffset(T& d, T m, T offset) {
  d -= offset;
  d++;
  if (d >= m) d = 0;
  d += offset;
}

inline int strcmp_PP(const char* a, const char* b) {
  if (a == b) return 0;
  if (a == nullptr) return -1;
  if (b == nullptr) return 1;
  return strcmp(a, b);
}
inline const char* strchr_P(const char* s, int c) { return strchr(s, c); }
inline const char* strrchr_P(const char* s, int c) { return strrchr(s, c); }

inline uint8_t decToBcd(uint8_t val) { return ((val / 10) << 4) | (val % 10); }
inline uint8_t bcdToDec(uint8_t val) { return (val >> 4) * 10 + (val & 0x0f); }

class TimingStats {
  public:
    TimingStats() { reset(); }
    void reset() { mMin = 0xffff; mMax = 0; mSum = 0; mCount = 0; mLast = 0; }
    void update(uint16_t d) {
      mCount++; mSum += d; mLast = d;
      if (d < mMin) mMin = d;
      if (d > mMax) mMax = d;
    }
    uint16_t getCount() const { return mCount; }
    uint16_t getMin() const { return mMin; }
    uint16_t getMax() const { return mMax; }
    uint16_t getLast() const { return mLast; }
    uint16_t getAvg() const { return mCount ? mSum / mCount : 0; }
  private:
    uint16_t mMin, mMax, mCount, mLast;
    uint32_t mSum;
};

}
#endif
