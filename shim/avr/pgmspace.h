// Host shim for <pgmspace.h>: flash == RAM.
#ifndef VERIF_SHIM_PGMSPACE_H
#define VERIF_SHIM_PGMSPACE_H
#include <stdint.h>
#include <string.h>
#define PROGMEM
#define PSTR(s) (s)
#define pgm_read_byte(p) (*reinterpret_cast<const uint8_t*>(p))
#define pgm_read_word(p) (*reinterpret_cast<const uint16_t*>(p))
#define pgm_read_dword(p) (*reinterpret_cast<const uint32_t*>(p))
#define pgm_read_float(p) (*reinterpret_cast<const float*>(p))
#define pgm_read_ptr(p) (*reinterpret_cast<const void* const*>(p))
inline int strcmp_P(const char* a, const char* b) { return strcmp(a, b); }
inline int strncmp_P(const char* a, const char* b, size_t n) { return strncmp(a, b, n); }
inline size_t strlen_P(const char* s) { return strlen(s); }
inline char* strcpy_P(char* d, const char* s) { return strcpy(d, s); }
inline char* strncpy_P(char* d, const char* s, size_t n) { return strncpy(d, s, n); }
inline const char* strchr_P(const char* s, int c) { return strchr(s, c); }
inline const char* strrchr_P(const char* s, int c) { return strrchr(s, c); }
inline void* memcpy_P(void* d, const void* s, size_t n) { return memcpy(d, s, n); }
#endif
