#ifndef VERIF_SHIM_WSTRING_H
#define VERIF_SHIM_WSTRING_H
class __FlashStringHelper;
#define F(s) (reinterpret_cast<const __FlashStringHelper*>(s))
#define FPSTR(p) (reinterpret_cast<const __FlashStringHelper*>(p))
#endif
