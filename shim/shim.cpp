// Definitions for the host shim (STUB component).
#include "Arduino.h"
SerialShim Serial;
// ::millis() is only reached if some code bypasses SystemClock::clockMillis();
// the simulator's clocks all override clockMillis(). Returning a constant keeps
// real time out of the process.
#ifdef SIM_ULONG32
extern "C" unsigned int millis() { return 0; }
#else
extern "C" unsigned long millis() { return 0; }
#endif
