// C09 under MemorySanitizer: "no public date/time or time-zone operation ... executes undefined behaviour, for any
// argument values and any call history". A value that the library returns without having written it is undefined
// behaviour that neither ASan nor UBSan reports, and that optimised builds hide by luck (the slot happens to be zero).
// MemorySanitizer sees it, but only in a program whose every byte of code is instrumented: this probe therefore uses no
// C++ standard library at all (the simulator proper does, and the system's libstdc++ is not instrumented). It is a small
// seeded simulator of its own: clients of every TimeZone kind over shared processors and evicting managers, created,
// copied, saved, restored and asked questions of every kind in a seeded order; every value the API hands back is
// CONSUMED (branched on), which is where MemorySanitizer checks. Built at -O0 so that nothing is folded away.
//   msanprobe run <verifSeed> <from> <count>      one seeded sequence per index; prints "SEQ <index>" before each
//   msanprobe one <verifSeed> <index> [<nops> [skip,skip,...]]   one sequence, optionally a prefix without some ops
#include <AceTime.h>
#include <stdio.h>
#include <stdlib.h>
#include <string.h>
#include <stdint.h>
#include <unistd.h>

using namespace ace_time;

static volatile uint64_t g_sink = 0;
static bool g_verbose = false;   // `one` mode: say what each op does
#define SAY(...) do { if (g_verbose) { printf("  op: " __VA_ARGS__); printf("\n"); fflush(stdout); } } while (0)
static void consume(long v) { if (v & 1) g_sink += 3; else g_sink += 5; if (v < 0) g_sink ^= 1; }
static void consumeStr(const char* s) { if (!s) { g_sink += 7; return; } size_t n = strlen(s); for (size_t i = 0; i < n; i++) consume(s[i]); }

struct Rng {
  uint64_t s[4];
  static uint64_t sm(uint64_t& x) { uint64_t z = (x += 0x9e3779b97f4a7c15ULL); z = (z ^ (z >> 30)) * 0xbf58476d1ce4e5b9ULL; z = (z ^ (z >> 27)) * 0x94d049bb133111ebULL; return z ^ (z >> 31); }
  void seed(uint64_t a, uint64_t b) { uint64_t x = a * 0x2545F4914F6CDD1DULL + b; for (int i = 0; i < 4; i++) s[i] = sm(x); }
  static uint64_t rotl(uint64_t x, int k) { return (x << k) | (x >> (64 - k)); }
  uint64_t next() { uint64_t r = rotl(s[1] * 5, 7) * 9, t = s[1] << 17; s[2] ^= s[0]; s[3] ^= s[1]; s[1] ^= s[2]; s[0] ^= s[3]; s[2] ^= t; s[3] = rotl(s[3], 45); return r; }
  uint64_t below(uint64_t n) { return n ? next() % n : 0; }
  int64_t range(int64_t lo, int64_t hi) { return lo + (int64_t)below((uint64_t)(hi - lo + 1)); }
};

class NullPrint : public Print {
 public:
  size_t write(uint8_t c) override { consume(c); return 1; }
};

static const int kClients = 6;
struct World {
  BasicZoneProcessor bp[2];
  ExtendedZoneProcessor xp[2];
  BasicZoneManager<2>* bm;
  ExtendedZoneManager<2>* xm;
  TimeZone tz[kClients];
  TimeZoneData saved[3];
  bool have[3];
  char line[64];
  ExtendedZoneProcessor* heapX;
  BasicZoneProcessor* heapB;
};

static int64_t epochOfYearStart(int y) {
  int64_t days = 0;
  if (y >= 2000) for (int k = 2000; k < y; k++) days += ((k % 4 == 0 && k % 100 != 0) || k % 400 == 0) ? 366 : 365;
  else for (int k = y; k < 2000; k++) days -= ((k % 4 == 0 && k % 100 != 0) || k % 400 == 0) ? 366 : 365;
  return days * 86400;
}

static acetime_t drawEpoch(Rng& r) {
  switch (r.below(8)) {
    case 0: return LocalDate::kInvalidEpochSeconds;
    case 1: return (acetime_t)(epochOfYearStart((int)r.range(1935, 1998)) + r.range(0, 31000000));
    case 2: return (acetime_t)(epochOfYearStart((int)r.range(2052, 2066)) + r.range(0, 31000000));
    case 3: return (acetime_t)(epochOfYearStart((int)r.range(1999, 2051)) + r.range(-90000, 90000));
    default: return (acetime_t)(epochOfYearStart((int)r.range(2000, 2049)) + r.range(0, 31000000));
  }
}

// The payload of an ERROR value is nobody's business (the statement asks for "values whose isError is true"): its
// fields are consumed only when the value is not an error; isError() and printTo() always.
static void consumeOdt(const OffsetDateTime& o) {
  consume(o.isError());
  if (!o.isError()) {
    consume(o.year()); consume(o.month()); consume(o.day()); consume(o.hour()); consume(o.minute()); consume(o.second());
    consume(o.timeOffset().toMinutes());
  }
  NullPrint p; o.printTo(p);
}

static void step(World& w, Rng& r) {
  int c = (int)r.below(kClients);
  unsigned k = (unsigned)r.below(100);
  if (k < 22) {   // (re)create a client
    unsigned how = (unsigned)r.below(11);
    static const char* const hows[] = {"forError", "forUtc", "manual", "basic direct", "extended direct", "basic manager by info", "extended manager by info", "by id", "by name", "copy of another client", "by index"};
    SAY("client %d := %s", c, hows[how]);
    switch (how) {
      case 0: w.tz[c] = TimeZone::forError(); break;
      case 1: w.tz[c] = TimeZone::forUtc(); break;
      case 2: w.tz[c] = TimeZone::forTimeOffset(TimeOffset::forMinutes((int16_t)r.range(-960, 960)), TimeOffset::forMinutes((int16_t)r.range(-120, 120))); break;
      case 3: { uint64_t pi = r.below(3); w.tz[c] = TimeZone::forZoneInfo(zonedb::kZoneRegistry[r.below(zonedb::kZoneRegistrySize)], pi == 2 ? w.heapB : &w.bp[pi]); break; }
      case 4: { uint64_t pi = r.below(3); w.tz[c] = TimeZone::forZoneInfo(zonedbx::kZoneRegistry[r.below(zonedbx::kZoneRegistrySize)], pi == 2 ? w.heapX : &w.xp[pi]); break; }
      case 5: w.tz[c] = w.bm->createForZoneInfo(zonedb::kZoneRegistry[r.below(zonedb::kZoneRegistrySize)]); break;
      case 6: w.tz[c] = w.xm->createForZoneInfo(zonedbx::kZoneRegistry[r.below(zonedbx::kZoneRegistrySize)]); break;
      case 7: {   // by id: present, or absent
        uint32_t id = r.below(3) ? extended::ZoneInfoBroker(zonedbx::kZoneRegistry[r.below(zonedbx::kZoneRegistrySize)]).zoneId() : (uint32_t)r.next();
        if (r.below(2)) w.tz[c] = w.xm->createForZoneId(id); else w.tz[c] = w.bm->createForZoneId(id);
        break;
      }
      case 8: {   // by name through the one line buffer: present, or misspelt
        const char* nm = extended::ZoneInfoBroker(zonedbx::kZoneRegistry[r.below(zonedbx::kZoneRegistrySize)]).name();
        strncpy(w.line, nm, sizeof w.line - 1); w.line[sizeof w.line - 1] = 0;
        if (r.below(3) == 0 && w.line[0]) w.line[r.below(strlen(w.line))] = 'q';
        if (r.below(2)) w.tz[c] = w.xm->createForZoneName(w.line); else w.tz[c] = w.bm->createForZoneName(w.line);
        break;
      }
      case 9: w.tz[c] = w.tz[r.below(kClients)]; break;   // copy
      default: {  // by index, possibly out of range
        uint16_t i = (uint16_t)(r.below(4) ? r.below(zonedbx::kZoneRegistrySize) : r.below(70000));
        if (r.below(2)) w.tz[c] = w.xm->createForZoneIndex(i); else w.tz[c] = w.bm->createForZoneIndex((uint16_t)(i % 400));
      }
    }
    return;
  }
  const TimeZone& tz = w.tz[c];
  if (k < 30) { SAY("client %d: getType / isError / isUtc / getZoneId", c); consume(tz.getType()); consume(tz.isError()); consume(tz.isUtc()); consume((long)tz.getZoneId()); return; }
  if (k < 42) { acetime_t e = drawEpoch(r); SAY("client %d: getUtcOffset(%ld)", c, (long)e); TimeOffset o = tz.getUtcOffset(e); consume(o.isError()); consume(o.toMinutes()); return; }   // a TimeOffset IS its minutes: isError() reads them
  if (k < 50) { acetime_t e = drawEpoch(r); SAY("client %d: getDeltaOffset(%ld)", c, (long)e); TimeOffset o = tz.getDeltaOffset(e); consume(o.isError()); consume(o.toMinutes()); return; }
  if (k < 58) { acetime_t e = drawEpoch(r); SAY("client %d: getAbbrev(%ld)", c, (long)e); consumeStr(tz.getAbbrev(e)); return; }
  if (k < 72) {
    int y = (int)r.range(1995, 2055), mo = (int)r.range(1, 12), d = (int)r.range(1, 28), h = (int)r.range(0, 23), mi = (int)r.range(0, 59);
    if (r.below(8) == 0) { switch (r.below(4)) { case 0: mo = 0; break; case 1: mo = 13; break; case 2: d = 0; break; default: h = 25; } }
    if (r.below(12) == 0) y = r.below(2) ? 1800 : 3000;
    LocalDateTime ldt = LocalDateTime::forComponents((int16_t)y, (uint8_t)mo, (uint8_t)d, (uint8_t)h, (uint8_t)mi, 0);
    SAY("client %d: getOffsetDateTime / ZonedDateTime::forComponents(%d-%d-%d %d:%d)", c, y, mo, d, h, mi);
    if (r.below(2)) consumeOdt(tz.getOffsetDateTime(ldt));
    else {
      ZonedDateTime z = ZonedDateTime::forComponents((int16_t)y, (uint8_t)mo, (uint8_t)d, (uint8_t)h, (uint8_t)mi, 0, tz);
      consume(z.isError());
      if (!z.isError()) { consume(z.year()); consume(z.month()); consume(z.day()); consume(z.hour()); consume(z.timeOffset().toMinutes()); }
      NullPrint p; z.printTo(p);
    }
    return;
  }
  if (k < 82) {
    acetime_t e = drawEpoch(r);
    SAY("client %d: ZonedDateTime::forEpochSeconds(%ld), print, convert", c, (long)e);
    ZonedDateTime z = ZonedDateTime::forEpochSeconds(e, tz);
    consume(z.isError());
    if (!z.isError()) { consume(z.year()); consume(z.month()); consume(z.day()); consume(z.hour()); consume(z.minute()); consume(z.timeOffset().toMinutes()); }
    NullPrint p; z.printTo(p);
    if (!z.isError() && z.year() > 1935 && z.year() < 2065) {
      consume((long)z.toEpochSeconds());
      ZonedDateTime u = z.convertToTimeZone(w.tz[r.below(kClients)]);
      consume(u.isError()); if (!u.isError()) consume(u.hour());
    }
    return;
  }
  if (k < 87) { SAY("client %d: printTo / printShortTo", c); NullPrint p; if (r.below(2)) tz.printTo(p); else tz.printShortTo(p); return; }
  if (k < 92) {   // save
    int s = (int)r.below(3);
    SAY("client %d: toTimeZoneData -> store %d", c, s);
    w.saved[s] = tz.toTimeZoneData(); w.have[s] = true;
    consume(w.saved[s].type);
    return;
  }
  if (k < 97) {   // restore through either manager, use the result
    int s = (int)r.below(3);
    if (!w.have[s]) return;
    SAY("client %d := createForTimeZoneData(store %d)", c, s);
    TimeZone t2 = r.below(2) ? w.xm->createForTimeZoneData(w.saved[s]) : w.bm->createForTimeZoneData(w.saved[s]);
    consume(t2.isError()); consume(t2.getType());
    consume(t2 == tz);
    w.tz[c] = t2;
    return;
  }
  { SAY("client %d: == / != another client", c); const TimeZone& o = w.tz[r.below(kClients)]; consume(tz == o); consume(tz != o); }
}

static void runSequence(uint64_t verifSeed, uint64_t index, int nops, const int* skip, int nskip) {
  // default-initialisation, NOT `new World()`: value-initialisation would zero-fill the processors before their
  // constructors run and MemorySanitizer would take every member they leave unwritten for written
  World* w = new World;
  ExtendedZoneProcessor* hx = new ExtendedZoneProcessor;   // processors that are neither zero-filled nor manager-owned
  BasicZoneProcessor* hb = new BasicZoneProcessor;
  w->heapX = hx; w->heapB = hb;
  w->bm = new BasicZoneManager<2>(zonedb::kZoneRegistrySize, zonedb::kZoneRegistry);
  w->xm = new ExtendedZoneManager<2>(zonedbx::kZoneRegistrySize, zonedbx::kZoneRegistry);
  for (int i = 0; i < 3; i++) w->have[i] = false;
  memset(w->line, 0, sizeof w->line);
  alarm(30);   // a sequence takes microseconds; a library call that does not return ends the process with SIGALRM
  Rng r; r.seed(verifSeed, index);
  int n = (int)r.range(4, 60);
  if (nops >= 0 && nops < n) n = nops;
  for (int i = 0; i < n; i++) {
    // every op draws from a generator of its own, so that dropping one op leaves the others as they were
    Rng ro; ro.seed(verifSeed * 1000003ULL + index, (uint64_t)i);
    bool skipped = false;
    for (int k = 0; k < nskip; k++) if (skip[k] == i) skipped = true;
    if (!skipped) step(*w, ro);
  }
  delete w->bm; delete w->xm; delete hx; delete hb; delete w;
}

int main(int argc, char** argv) {
  if (argc >= 5 && !strcmp(argv[1], "run")) {
    uint64_t vs = strtoull(argv[2], nullptr, 10), from = strtoull(argv[3], nullptr, 10), cnt = strtoull(argv[4], nullptr, 10);
    for (uint64_t i = from; i < from + cnt; i++) {
      printf("SEQ %llu\n", (unsigned long long)i); fflush(stdout);
      runSequence(vs, i, -1, nullptr, 0);
    }
    printf("DONE %llu sink=%llu\n", (unsigned long long)cnt, (unsigned long long)g_sink);
    return 0;
  }
  if (argc >= 4 && !strcmp(argv[1], "one")) {
    uint64_t vs = strtoull(argv[2], nullptr, 10), idx = strtoull(argv[3], nullptr, 10);
    int nops = argc >= 5 ? atoi(argv[4]) : -1;
    int skip[64]; int ns = 0;
    if (argc >= 6) { char* p = argv[5]; while (*p && ns < 64) { skip[ns++] = (int)strtol(p, &p, 10); if (*p == ',') p++; } }
    g_verbose = true;
    runSequence(vs, idx, nops, skip, ns);
    printf("DONE 1 sink=%llu\n", (unsigned long long)g_sink);
    return 0;
  }
  fprintf(stderr, "usage: msanprobe run <seed> <from> <count> | one <seed> <index> [<nops> [skips]]\n");
  return 2;
}
