"""pysim: history independence (C08) of the Python reference ZoneSpecifier.

One long-lived ZoneSpecifier per run receives a seeded sequence of public calls; every call is
repeated on a freshly constructed instance with the same options, and the two outcomes are compared
as *value* vs *failure* (exception types are not an API; the documented None counts as failure).
Traces are line-oriented and total, like simdev's, so the same ddmin / replay machinery applies.
"""
import hashlib
import logging
import os
import random
import signal
import sys
from datetime import datetime

REPO = os.environ.get('VERIF_REPO', '/repo')
TOOLS = os.path.join(REPO, 'tools')

_loaded = {}
logging.disable(logging.CRITICAL)   # the code under test logs every failed fill


def _load():
    if 'zs' in _loaded:
        return _loaded
    if TOOLS not in sys.path:
        sys.path.insert(0, TOOLS)
    # make sure a previously imported copy from another tree is not reused
    for m in list(sys.modules):
        if m == 'zonedb' or m.startswith('zonedb.') or m == 'zonedbpy' or m.startswith('zonedbpy.'):
            f = getattr(sys.modules[m], '__file__', '') or ''
            if not f.startswith(TOOLS):
                del sys.modules[m]
    from zonedb import zone_specifier
    from zonedbpy import zone_infos
    _loaded['zs'] = zone_specifier
    _loaded['infos'] = zone_infos.ZONE_INFO_MAP
    _loaded['names'] = sorted(zone_infos.ZONE_INFO_MAP)
    return _loaded


FAIL = ('FAIL',)
HANG = ('HANG',)
OP_WATCHDOG_S = 20   # one op takes well under a millisecond; get_buffer_sizes a few ms


class _OpTimeout(BaseException):   # not an Exception: the code under test must not be able to swallow it
    pass


def _on_alarm(signum, frame):
    raise _OpTimeout()


def _norm_transition(t):
    if t is None:
        return FAIL
    def dtup(x):
        return None if x is None else (x.y, x.M, x.d, x.ss, x.f)
    return ('T', dtup(t.startDateTime), dtup(t.untilDateTime), t.startEpochSecond, t.offsetSeconds,
            t.deltaSeconds, t.abbrev)


def apply_op(zs, op):
    """Runs one op under a watchdog; returns a normalised outcome (a value tuple, FAIL, or HANG)."""
    old = signal.signal(signal.SIGALRM, _on_alarm)
    signal.setitimer(signal.ITIMER_REAL, OP_WATCHDOG_S)
    try:
        return _apply_op(zs, op)
    except _OpTimeout:
        return HANG
    finally:
        signal.setitimer(signal.ITIMER_REAL, 0)
        signal.signal(signal.SIGALRM, old)


def _apply_op(zs, op):
    try:
        k = op[0]
        if k == 'info_s':
            r = zs.get_timezone_info_for_seconds(int(op[1]))
            return ('V', tuple(r))
        if k == 'info_dt':
            r = zs.get_timezone_info_for_datetime(datetime(*[int(x) for x in op[1:7]]))
            return FAIL if r is None else ('V', tuple(r))
        if k == 'trans_s':
            return _norm_transition(zs.get_transition_for_seconds(int(op[1])))
        if k == 'trans_dt':
            return _norm_transition(zs.get_transition_for_datetime(datetime(*[int(x) for x in op[1:7]])))
        if k == 'init':
            zs.init_for_year(int(op[1]))
            if not zs.transitions:
                # primed, but with nothing that could answer a query: the same as a failed fill
                # (a repeated out-of-range init returns silently from the poisoned cache key)
                return FAIL
            # the transitions are the answer; len(matches) and max_transition_buffer_size are diagnostics of how
            # the answer was computed (a memo that skips the work changes them and keeps every answer)
            return ('I', tuple(_norm_transition(t) for t in zs.transitions))
        if k == 'bufsz':
            return ('B', zs.get_buffer_sizes(int(op[1]), int(op[2])))
        return ('?',)
    except (Exception, SystemExit):   # any exception is "failure" (the code under test even calls sys.exit() on
        return FAIL                    # some impossible dates); its type is not part of the API


# ---------------------------------------------------------------------------------------------------------------
# Pristine reference process. A "fresh" instance built in a process that has already executed other histories is only
# as fresh as the module- and class-level state allows: a cache that lives on the class would poison the long-lived
# and the fresh instance alike. So execute() - which is only ever entered by a process that has run nothing yet (a fresh
# interpreter for a replay, a child forked from a worker that never executes a run itself) - FIRST forks a child that
# answers every question of the run on a newly built instance, optionally each question in a process of its own, and
# only then runs the history. The child's answers are what "a process where nothing has run before" says.

def _in_child(fn):
    import pickle
    r, w = os.pipe()
    pid = os.fork()
    if pid == 0:
        os.close(r)
        try:
            res = fn()
        except BaseException:
            res = None
        try:
            with os.fdopen(w, 'wb') as f:
                pickle.dump(res, f)
        finally:
            os._exit(0)
    os.close(w)
    return pid, r


def _collect(pid_fd):
    import pickle
    pid, r = pid_fd
    with os.fdopen(r, 'rb') as f:
        raw = f.read()
    os.waitpid(pid, 0)
    try:
        return pickle.loads(raw)
    except Exception:
        return None


def spawn_pristine(questions, isolate):
    """questions = [(zone, opts, op)]. Returns a handle for collect_pristine(), or None when disabled."""
    if os.environ.get('PYSIM_NO_PRISTINE'):
        return None

    def answer_all():
        if isolate:
            # every question in a process of its own: not even an earlier question of this run has run before it
            return [_collect(_in_child(lambda z=z, o=o, op=op: apply_op(make(z, o), op))) for (z, o, op) in questions]
        return [apply_op(make(z, o), op) for (z, o, op) in questions]
    try:
        return _in_child(answer_all)
    except OSError:
        return None


def collect_pristine(handle):
    return _collect(handle) if handle is not None else None


def parse(text):
    """Returns (instances, ops): instances = {slot: (zone, opts)}, ops = [(slot, [kind, args...])].
    Old single-instance traces ("ZONE <name> ..." / "OP <kind> ...") are slot 0."""
    lines = [l.strip() for l in text.split('\n') if l.strip()]
    inst, ops = {}, []
    for l in lines:
        t = l.split('#')[0].split()
        if not t:
            continue
        if t[0] == 'ZONE' and len(t) >= 2:
            if t[1].isdigit() and len(t) >= 3:
                slot, name, rest = int(t[1]), t[2], t[3:]
            else:
                slot, name, rest = 0, t[1], t[2:]
            opts = {'vm': 14, 'inplace': 1, 'opt': 1}
            for kv in rest:
                k, v = kv.split('=')
                opts[k] = int(v)
            inst[slot] = (name, opts)
        elif t[0] == 'OP' and len(t) >= 2:
            if t[1].isdigit() and len(t) >= 3:
                ops.append((int(t[1]), t[2:]))
            else:
                ops.append((0, t[1:]))
    return inst, ops


def make(zone, opts):
    L = _load()
    return L['zs'].ZoneSpecifier(L['infos'][zone], viewing_months=opts['vm'],
                                 in_place_transitions=bool(opts['inplace']),
                                 optimize_candidates=bool(opts['opt']))


ISOLATE_EVERY = 10   # batch: every n-th run gets one pristine process per question (replays: all)


def execute(text, cov=None, isolate=True):
    """Returns (violated, vclass, message, op_index)."""
    inst, ops = parse(text)
    L = _load()
    inst = {k: v for k, v in inst.items() if v[0] in L['infos']}
    ops = [(sl, op) for (sl, op) in ops if sl in inst]
    if not inst or not ops:
        return (False, '', '', -1)
    live = {sl: make(z, o) for sl, (z, o) in inst.items()}
    prev = {sl: (None, None) for sl in inst}
    names = L['names']
    fresh_seen = {}
    handle = spawn_pristine([(inst[sl][0], inst[sl][1], op) for (sl, op) in ops], isolate)   # before anything else runs
    wants = []
    result = None
    for i, (sl, op) in enumerate(ops):
        zone, opts = inst[sl]
        got = apply_op(live[sl], op)
        # State shared between instances (a class attribute, a module-level memo, mutated shared tables) would be
        # seen alike by the long-lived instance and by a fresh one asked right after it. So an unrelated instance
        # (another zone, another year) is exercised first, and a fresh instance must also agree with what a fresh
        # instance answered to the same op earlier in this run.
        decoy_zone = names[(names.index(zone) + 97) % len(names)]
        apply_op(make(decoy_zone, opts), ['init', str(2000 + (i * 7 + len(ops)) % 50)])
        want = apply_op(make(zone, opts), op)
        key = (zone, tuple(sorted(opts.items())), tuple(op))
        if key in fresh_seen and fresh_seen[key] != want:
            result = (True, 'c08-py-fresh-drift',
                      'a fresh ZoneSpecifier(%s) answers %s to %s now but answered %s earlier in this run: state shared '
                      'between instances' % (zone, _short(want), ' '.join(op), _short(fresh_seen[key])), i)
            break
        fresh_seen[key] = want
        wants.append(want)
        if cov is not None:
            cov['ops'] = cov.get('ops', 0) + 1
            year = _op_year(op)
            prev_year, prev_ok = prev[sl]
            state = 'unfilled' if prev_year is None else (
                ('same-year' if prev_year == year else 'other-year') if prev_ok else
                ('failed-same-year' if prev_year == year else 'failed-other-year'))
            cls = 'in' if 2000 <= year < 2050 else ('edge' if 1998 <= year <= 2051 else 'out')
            cov.setdefault('cells', set()).add('%s|%s|%s|vm%d' % (op[0], state, cls, opts['vm']))
            if state not in ('unfilled', 'same-year'):
                cov['nontrivial_ops'] = cov.get('nontrivial_ops', 0) + 1
            if cls != 'in':
                cov['oor_query'] = cov.get('oor_query', 0) + 1
            if want == FAIL:
                cov['fresh_failures'] = cov.get('fresh_failures', 0) + 1
            prev[sl] = (live[sl].year, want != FAIL) if op[0] != 'bufsz' else (live[sl].year, True)
        if got != want:
            result = (True, 'c08-py-history-%s' % op[0],
                      'long-lived ZoneSpecifier(%s) answered %s to %s; a fresh instance answers %s'
                      % (zone, _short(got), ' '.join(op), _short(want)), i)
            break
    pristine = collect_pristine(handle)
    if cov is not None:
        cov['pristine_process_runs'] = cov.get('pristine_process_runs', 0) + (1 if pristine is not None else 0)
        if pristine is not None and isolate:
            cov['pristine_per_question_runs'] = cov.get('pristine_per_question_runs', 0) + 1
    if pristine is not None:
        for i, want in enumerate(wants):
            if result is not None and i >= result[3]:
                break
            if i < len(pristine) and pristine[i] is not None and pristine[i] != want:   # None: the child gave no answer (died)
                return (True, 'c08-py-fresh-drift',
                        'a fresh ZoneSpecifier(%s) in this process answers %s to %s; a fresh one in a process where nothing '
                        'has run before answers %s: state shared between instances'
                        % (inst[ops[i][0]][0], _short(want), ' '.join(ops[i][1]), _short(pristine[i])), i)
    return result if result is not None else (False, '', '', -1)


def _short(x):
    s = repr(x)
    return s if len(s) < 300 else s[:300] + '...'


def _op_year(op):
    if op[0] in ('info_s', 'trans_s'):
        try:
            return datetime.utcfromtimestamp(int(op[1]) + 946684800).year
        except (OverflowError, OSError, ValueError):
            return 0
    return int(op[1])


def _epoch_of_year(y):
    return int((datetime(y, 1, 1) - datetime(2000, 1, 1)).total_seconds())


def _policy_index():
    """policy name -> zones whose eras use it (zones that share a policy share its rule tables)."""
    L = _load()
    if 'by_policy' in L:
        return L['by_policy']
    idx = {}
    for name in L['names']:
        for era in L['infos'][name].get('eras', []):
            pol = era.get('zonePolicy') if isinstance(era, dict) else None
            pn = pol.get('name') if isinstance(pol, dict) else None
            if pn:
                idx.setdefault(pn, [])
                if name not in idx[pn]:
                    idx[pn].append(name)
    L['by_policy'] = idx
    return idx


def generate(seed):
    L = _load()
    rng = random.Random(seed)
    # 1-3 long-lived instances per run: other zones (half of the time one that shares a rule policy with the first),
    # or the same zone under other constructor options
    zones = [rng.choice(L['names'])]
    nz = rng.choice([1, 1, 2, 2, 3])
    sharing = []
    for pn, zs in sorted(_policy_index().items()):
        if zones[0] in zs:
            sharing.extend(z for z in zs if z != zones[0])
    while len(zones) < nz:
        r = rng.random()
        if r < 0.5 and sharing:
            zones.append(rng.choice(sharing))
        elif r < 0.65:
            zones.append(zones[0])
        else:
            zones.append(rng.choice(L['names']))
    lines = ['PROFILE py-history']
    for sl, z in enumerate(zones):
        lines.append('ZONE %d %s vm=%d inplace=%d opt=%d' % (sl, z, rng.choice([14, 14, 14, 13, 36, 12]), rng.randint(0, 1),
                                                            rng.randint(0, 1)))
    n = rng.randint(4, 40) if rng.random() < 0.9 else rng.randint(60, 160)   # some long runs: fill any bounded memo
    last_year = rng.randint(2000, 2049)
    fault_free = rng.random() < 0.3
    for _ in range(n):
        sl = rng.randrange(len(zones))
        r = rng.random()
        # year choice: in range, near the last one, boundary, far out
        q = rng.random()
        if q < 0.5:
            y = rng.randint(2000, 2049)
        elif q < 0.7:
            y = last_year + rng.choice([-1, 0, 0, 1])
        elif q < 0.85:
            y = rng.choice([1998, 1999, 2000, 2049, 2050, 2051])
        else:
            y = rng.choice([rng.randint(1950, 1997), rng.randint(2052, 2100)])
        if fault_free:
            y = min(max(y, 2000), 2049)
        y = min(max(y, 1902), 2100)
        last_year = y
        reps = 1 if 2000 <= y < 2050 else rng.randint(1, 3)   # failing queries are repeated
        if r < 0.35:
            e = _epoch_of_year(y) + rng.randint(0, 365 * 86400 - 1)
            if rng.random() < 0.3:
                e = _epoch_of_year(y) + rng.choice([0, 1, 86399, 86400, 364 * 86400, 365 * 86400 - 1])
            for _k in range(reps):
                lines.append('OP %d %s %d' % (sl, rng.choice(['info_s', 'trans_s']), e))
        elif r < 0.7:
            dt = (y, rng.randint(1, 12), rng.randint(1, 28), rng.choice([0, 1, 2, 3, rng.randint(0, 23)]),
                  rng.randint(0, 59), rng.randint(0, 59))
            for _k in range(reps):
                lines.append('OP %d %s %d %d %d %d %d %d' % ((sl, rng.choice(['info_dt', 'trans_dt'])) + dt))
        elif r < 0.93:
            for _k in range(reps):
                lines.append('OP %d init %d' % (sl, y))
        else:
            y0 = min(max(y, 1999), 2048) if rng.random() < 0.5 else y
            span = rng.randint(1, 3)
            for _k in range(reps):
                lines.append('OP %d bufsz %d %d' % (sl, y0, y0 + span))
        if not (2000 <= y < 2050) and rng.random() < 0.4:
            # a failing question is followed by another kind of question about the same year on the same instance:
            # whatever the failed fill left behind must not answer it
            if rng.random() < 0.5:
                lines.append('OP %d bufsz %d %d' % (sl, y, y + 1))
            else:
                lines.append('OP %d init %d' % (sl, y))
    return '\n'.join(lines) + '\n'


def _merge_cov(total, part):
    for k, v in part.items():
        if isinstance(v, set):
            total.setdefault(k, set()).update(v)
        else:
            total[k] = total.get(k, 0) + v


def run_one_isolated(text, isolate):
    """Executes one run in a child forked from THIS process, which never executes a run itself: every run starts from
    a process without history, exactly like a replay in a fresh interpreter, so that whatever is reported reproduces as a
    single trace. (State that outlives an instance would otherwise leak from run to run inside a worker.)"""
    import pickle
    r, w = os.pipe()
    pid = os.fork()
    if pid == 0:
        os.close(r)
        try:
            cov = {}
            v = execute(text, cov, isolate=isolate)
            payload = (v, cov)
        except BaseException as e:   # noqa
            payload = ((False, 'harness', repr(e), -1), {})
        try:
            with os.fdopen(w, 'wb') as f:
                pickle.dump(payload, f)
        finally:
            os._exit(0)
    os.close(w)
    with os.fdopen(r, 'rb') as f:
        raw = f.read()
    os.waitpid(pid, 0)
    try:
        return pickle.loads(raw)
    except Exception:
        return ((False, 'harness', 'run process died', -1), {})


def run_range(args):
    """Worker: executes run indices [start, end) for a VERIF_SEED; returns stats and violations."""
    verif_seed, start, end = args
    cov = {}
    viol = []
    digest = hashlib.sha256()
    samples = []
    nontrivial_runs = 0
    i = start - 1
    for i in range(start, end):
        seed = int.from_bytes(hashlib.sha256(b'pysim:%d:%d' % (verif_seed, i)).digest()[:8], 'little')
        text = generate(seed)
        v, part = run_one_isolated(text, i % ISOLATE_EVERY == 0)
        if part.get('nontrivial_ops', 0) > 0:
            nontrivial_runs += 1
            if len(samples) < 1 and len(text) < 1500:
                samples.append(text)
        _merge_cov(cov, part)
        digest.update(text.encode())
        digest.update(repr(v).encode())
        if v[0]:
            viol.append({'run': i, 'seed': seed, 'vclass': v[1], 'msg': v[2], 'op': v[3]})
            break
    return {'runs': (i - start + 1) if end > start else 0, 'cov': cov, 'viol': viol,
            'digest': digest.hexdigest(), 'samples': samples, 'nontrivial_runs': nontrivial_runs}


if __name__ == '__main__':
    # digest mode for the determinism self-test: python hist.py digest <verif_seed> <n>
    if len(sys.argv) >= 4 and sys.argv[1] == 'digest':
        r = run_range((int(sys.argv[2]), 0, int(sys.argv[3])))
        print(r['digest'])
    elif len(sys.argv) >= 3 and sys.argv[1] == 'gen':
        sys.stdout.write(generate(int(sys.argv[2])))
