"""pysim: history independence (C08) of the Python reference ZoneSpecifier.

One long-lived ZoneSpecifier per run receives a seeded sequence of public calls; every call is
repeated on a freshly constructed instance with the same options, and the two outcomes are compared
as *value* vs *failure* (exception types are not an API; the documented None counts as failure).
Traces are line-oriented and total, like simdev's, so the same ddmin / replay machinery applies.
"""
import hashlib
import logging
import os
import random
import signal
import sys
from datetime import datetime

REPO = os.environ.get('VERIF_REPO', '/repo')
TOOLS = os.path.join(REPO, 'tools')

_loaded = {}
logging.disable(logging.CRITICAL)   # the code under test logs every failed fill


def _load():
    if 'zs' in _loaded:
        return _loaded
    if TOOLS not in sys.path:
        sys.path.insert(0, TOOLS)
    # make sure a previously imported copy from another tree is not reused
    for m in list(sys.modules):
        if m == 'zonedb' or m.startswith('zonedb.') or m == 'zonedbpy' or m.startswith('zonedbpy.'):
            f = getattr(sys.modules[m], '__file__', '') or ''
            if not f.startswith(TOOLS):
                del sys.modules[m]
    from zonedb import zone_specifier
    from zonedbpy import zone_infos
    _loaded['zs'] = zone_specifier
    _loaded['infos'] = zone_infos.ZONE_INFO_MAP
    _loaded['names'] = sorted(zone_infos.ZONE_INFO_MAP)
    return _loaded


FAIL = ('FAIL',)
HANG = ('HANG',)
OP_WATCHDOG_S = 20   # one op takes well under a millisecond; get_buffer_sizes a few ms


class _OpTimeout(BaseException):   # not an Exception: the code under test must not be able to swallow it
    pass


def _on_alarm(signum, frame):
    raise _OpTimeout()


def _norm_transition(t):
    if t is None:
        return FAIL
    def dtup(x):
        return None if x is None else (x.y, x.M, x.d, x.ss, x.f)
    return ('T', dtup(t.startDateTime), dtup(t.untilDateTime), t.startEpochSecond, t.offsetSeconds,
            t.deltaSeconds, t.abbrev)


def apply_op(zs, op):
    """Runs one op under a watchdog; returns a normalised outcome (a value tuple, FAIL, or HANG)."""
    old = signal.signal(signal.SIGALRM, _on_alarm)
    signal.setitimer(signal.ITIMER_REAL, OP_WATCHDOG_S)
    try:
        return _apply_op(zs, op)
    except _OpTimeout:
        return HANG
    finally:
        signal.setitimer(signal.ITIMER_REAL, 0)
        signal.signal(signal.SIGALRM, old)


def _apply_op(zs, op):
    try:
        k = op[0]
        if k == 'info_s':
            r = zs.get_timezone_info_for_seconds(int(op[1]))
            return ('V', tuple(r))
        if k == 'info_dt':
            r = zs.get_timezone_info_for_datetime(datetime(*[int(x) for x in op[1:7]]))
            return FAIL if r is None else ('V', tuple(r))
        if k == 'trans_s':
            return _norm_transition(zs.get_transition_for_seconds(int(op[1])))
        if k == 'trans_dt':
            return _norm_transition(zs.get_transition_for_datetime(datetime(*[int(x) for x in op[1:7]])))
        if k == 'init':
            zs.init_for_year(int(op[1]))
            if not zs.transitions:
                # primed, but with nothing that could answer a query: the same as a failed fill
                # (a repeated out-of-range init returns silently from the poisoned cache key)
                return FAIL
            return ('I', len(zs.matches), tuple(_norm_transition(t) for t in zs.transitions),
                    zs.max_transition_buffer_size)
        if k == 'bufsz':
            return ('B', zs.get_buffer_sizes(int(op[1]), int(op[2])))
        return ('?',)
    except (Exception, SystemExit):   # any exception is "failure" (the code under test even calls sys.exit() on
        return FAIL                    # some impossible dates); its type is not part of the API


# ---------------------------------------------------------------------------------------------------------------
# Pristine reference process. A "fresh" instance built in a process that has already executed thousands of histories
# is only as fresh as the module- and class-level state allows: a cache that lives on the class and that the first
# writer wins would poison the long-lived and the fresh instance alike, for the rest of the process. So every run
# also obtains the fresh answers from a process in which NOTHING has run before: a zygote (a separate interpreter that
# has only imported the modules) forks one short-lived child per request; the child answers each op on a newly
# built instance and exits.

_zygote = None


def _zygote_main():
    import pickle
    import struct
    _load()
    inp, out = sys.stdin.buffer, sys.stdout.buffer
    while True:
        hdr = inp.read(4)
        if len(hdr) < 4:
            return
        (n,) = struct.unpack('<I', hdr)
        zone, opts, ops = pickle.loads(inp.read(n))
        r, w = os.pipe()
        pid = os.fork()
        if pid == 0:
            os.close(r)
            try:
                res = [apply_op(make(zone, opts), op) for op in ops]
            except BaseException:
                res = None
            with os.fdopen(w, 'wb') as f:
                pickle.dump(res, f)
            os._exit(0)
        os.close(w)
        with os.fdopen(r, 'rb') as f:
            data = f.read()
        os.waitpid(pid, 0)
        out.write(struct.pack('<I', len(data)) + data)
        out.flush()


def pristine_request(zone, opts, ops):
    """Sends the request; the answer is collected later with pristine_response() so that both sides work in parallel."""
    global _zygote
    import pickle
    import struct
    import subprocess
    if os.environ.get('PYSIM_NO_ZYGOTE'):
        return False
    try:
        if _zygote is None or _zygote.poll() is not None:
            env = dict(os.environ)
            env['PYTHONHASHSEED'] = env.get('PYTHONHASHSEED', '0')
            _zygote = subprocess.Popen([sys.executable, os.path.abspath(__file__), 'zygote'], stdin=subprocess.PIPE,
                                       stdout=subprocess.PIPE, stderr=subprocess.DEVNULL, env=env)
        req = pickle.dumps((zone, opts, ops))
        _zygote.stdin.write(struct.pack('<I', len(req)) + req)
        _zygote.stdin.flush()
        return True
    except Exception:
        return False


def pristine_response():
    """Fresh answers for each op from a process with no history; None if the helper failed."""
    import pickle
    import struct
    try:
        hdr = _zygote.stdout.read(4)
        (n,) = struct.unpack('<I', hdr)
        return pickle.loads(_zygote.stdout.read(n))
    except Exception:
        return None


def parse(text):
    lines = [l.strip() for l in text.split('\n') if l.strip()]
    zone, opts, ops = None, {'vm': 14, 'inplace': 1, 'opt': 1}, []
    for l in lines:
        t = l.split('#')[0].split()
        if not t:
            continue
        if t[0] == 'ZONE':
            zone = t[1]
            for kv in t[2:]:
                k, v = kv.split('=')
                opts[k] = int(v)
        elif t[0] == 'OP':
            ops.append(t[1:])
    return zone, opts, ops


def make(zone, opts):
    L = _load()
    return L['zs'].ZoneSpecifier(L['infos'][zone], viewing_months=opts['vm'],
                                 in_place_transitions=bool(opts['inplace']),
                                 optimize_candidates=bool(opts['opt']))


def execute(text, cov=None):
    """Returns (violated, vclass, message, op_index)."""
    zone, opts, ops = parse(text)
    L = _load()
    if zone is None or zone not in L['infos']:
        return (False, '', '', -1)
    live = make(zone, opts)
    prev_year, prev_ok = None, None
    names = L['names']
    decoy_zone = names[(names.index(zone) + 97) % len(names)]
    fresh_seen = {}
    asked = pristine_request(zone, opts, ops)
    wants = []
    result = None
    for i, op in enumerate(ops):
        got = apply_op(live, op)
        # State shared between instances (a class attribute, a module-level memo, mutated shared tables) would be
        # seen alike by the long-lived instance and by a fresh one asked right after it. So an unrelated instance
        # (another zone, another year) is exercised first, and a fresh instance must also agree with what a fresh
        # instance answered to the same op earlier in this run.
        apply_op(make(decoy_zone, opts), ['init', str(2000 + (i * 7 + len(ops)) % 50)])
        want = apply_op(make(zone, opts), op)
        key = tuple(op)
        if key in fresh_seen and fresh_seen[key] != want:
            result = (True, 'c08-py-fresh-drift',
                    'a fresh ZoneSpecifier(%s) answers %s to %s now but answered %s earlier in this run: state shared '
                    'between instances' % (zone, _short(want), ' '.join(op), _short(fresh_seen[key])), i)
            break
        fresh_seen[key] = want
        wants.append(want)
        if cov is not None:
            cov['ops'] = cov.get('ops', 0) + 1
            year = _op_year(op)
            state = 'unfilled' if prev_year is None else (
                ('same-year' if prev_year == year else 'other-year') if prev_ok else
                ('failed-same-year' if prev_year == year else 'failed-other-year'))
            cls = 'in' if 2000 <= year < 2050 else ('edge' if 1998 <= year <= 2051 else 'out')
            cov.setdefault('cells', set()).add('%s|%s|%s|vm%d' % (op[0], state, cls, opts['vm']))
            if state not in ('unfilled', 'same-year'):
                cov['nontrivial_ops'] = cov.get('nontrivial_ops', 0) + 1
            if cls != 'in':
                cov['oor_query'] = cov.get('oor_query', 0) + 1
            if want == FAIL:
                cov['fresh_failures'] = cov.get('fresh_failures', 0) + 1
            prev_year, prev_ok = (live.year, want != FAIL) if op[0] != 'bufsz' else (live.year, True)
        if got != want:
            result = (True, 'c08-py-history-%s' % op[0],
                      'long-lived ZoneSpecifier(%s) answered %s to %s; a fresh instance answers %s'
                      % (zone, _short(got), ' '.join(op), _short(want)), i)
            break
    pristine = pristine_response() if asked else None
    if cov is not None:
        cov['pristine_process_runs'] = cov.get('pristine_process_runs', 0) + (1 if pristine is not None else 0)
    if pristine is not None:
        for i, want in enumerate(wants):
            if result is not None and i >= result[3]:
                break
            if i < len(pristine) and pristine[i] != want:
                return (True, 'c08-py-fresh-drift',
                        'a fresh ZoneSpecifier(%s) in this process answers %s to %s; a fresh one in a process where nothing '
                        'has run before answers %s: state shared between instances'
                        % (zone, _short(want), ' '.join(ops[i]), _short(pristine[i])), i)
    return result if result is not None else (False, '', '', -1)


def _short(x):
    s = repr(x)
    return s if len(s) < 300 else s[:300] + '...'


def _op_year(op):
    if op[0] in ('info_s', 'trans_s'):
        try:
            return datetime.utcfromtimestamp(int(op[1]) + 946684800).year
        except (OverflowError, OSError, ValueError):
            return 0
    return int(op[1])


def _epoch_of_year(y):
    return int((datetime(y, 1, 1) - datetime(2000, 1, 1)).total_seconds())


def generate(seed):
    L = _load()
    rng = random.Random(seed)
    zone = rng.choice(L['names'])
    vm = rng.choice([14, 14, 14, 13, 36, 12])
    lines = ['PROFILE py-history',
             'ZONE %s vm=%d inplace=%d opt=%d' % (zone, vm, rng.randint(0, 1), rng.randint(0, 1))]
    n = rng.randint(4, 40)
    last_year = rng.randint(2000, 2049)
    fault_free = rng.random() < 0.3
    for _ in range(n):
        r = rng.random()
        # year choice: in range, near the last one, boundary, far out
        q = rng.random()
        if q < 0.5:
            y = rng.randint(2000, 2049)
        elif q < 0.7:
            y = last_year + rng.choice([-1, 0, 0, 1])
        elif q < 0.85:
            y = rng.choice([1998, 1999, 2000, 2049, 2050, 2051])
        else:
            y = rng.choice([rng.randint(1950, 1997), rng.randint(2052, 2100)])
        if fault_free:
            y = min(max(y, 2000), 2049)
        y = min(max(y, 1902), 2100)
        last_year = y
        reps = 1 if 2000 <= y < 2050 else rng.randint(1, 3)   # failing queries are repeated
        if r < 0.35:
            e = _epoch_of_year(y) + rng.randint(0, 365 * 86400 - 1)
            if rng.random() < 0.3:
                e = _epoch_of_year(y) + rng.choice([0, 1, 86399, 86400, 364 * 86400, 365 * 86400 - 1])
            for _k in range(reps):
                lines.append('OP %s %d' % (rng.choice(['info_s', 'trans_s']), e))
        elif r < 0.7:
            dt = (y, rng.randint(1, 12), rng.randint(1, 28), rng.choice([0, 1, 2, 3, rng.randint(0, 23)]),
                  rng.randint(0, 59), rng.randint(0, 59))
            for _k in range(reps):
                lines.append('OP %s %d %d %d %d %d %d' % ((rng.choice(['info_dt', 'trans_dt']),) + dt))
        elif r < 0.93:
            for _k in range(reps):
                lines.append('OP init %d' % y)
        else:
            y0 = min(max(y, 1999), 2048)
            lines.append('OP bufsz %d %d' % (y0, y0 + rng.randint(1, 3)))
    return '\n'.join(lines) + '\n'


def run_range(args):
    """Worker: executes run indices [start, end) for a VERIF_SEED; returns stats and violations."""
    verif_seed, start, end = args
    cov = {}
    viol = []
    digest = hashlib.sha256()
    samples = []
    nontrivial_runs = 0
    for i in range(start, end):
        seed = int.from_bytes(hashlib.sha256(b'pysim:%d:%d' % (verif_seed, i)).digest()[:8], 'little')
        text = generate(seed)
        before = cov.get('nontrivial_ops', 0)
        v = execute(text, cov)
        if cov.get('nontrivial_ops', 0) > before:
            nontrivial_runs += 1
            if len(samples) < 1 and len(text) < 1500:
                samples.append(text)
        digest.update(text.encode())
        digest.update(repr(v).encode())
        if v[0]:
            viol.append({'run': i, 'seed': seed, 'vclass': v[1], 'msg': v[2], 'op': v[3]})
            break
    return {'runs': (i - start + 1) if end > start else 0, 'cov': cov, 'viol': viol,
            'digest': digest.hexdigest(), 'samples': samples, 'nontrivial_runs': nontrivial_runs}


if __name__ == '__main__':
    # digest mode for the determinism self-test: python hist.py digest <verif_seed> <n>
    if len(sys.argv) >= 4 and sys.argv[1] == 'digest':
        r = run_range((int(sys.argv[2]), 0, int(sys.argv[3])))
        print(r['digest'])
    elif len(sys.argv) >= 2 and sys.argv[1] == 'zygote':
        _zygote_main()
    elif len(sys.argv) >= 3 and sys.argv[1] == 'gen':
        sys.stdout.write(generate(int(sys.argv[2])))
