"""Orchestration of the pysim campaign (parallel seed ranges, triage, replay)."""
import json
import os
import subprocess
import sys
import time
from concurrent.futures import ProcessPoolExecutor
import multiprocessing

from orch import core as K
from . import hist

HERE = os.path.dirname(os.path.abspath(__file__))


def outcome_of(text):
    """One trace in a FRESH interpreter (a violation may be about state that outlives an instance, so the process
    that minimises must not carry any)."""
    p = subprocess.run([sys.executable, '-c',
                        'import sys, json; sys.path.insert(0, %r); from pysim import hist; '
                        'v = hist.execute(sys.stdin.read()); print(json.dumps(v))' % os.path.dirname(HERE)],
                       input=text, stdout=subprocess.PIPE, stderr=subprocess.PIPE, text=True, timeout=600)
    if p.returncode != 0:
        return K.Outcome('error', 'harness', p.stderr[-1500:])
    v = json.loads(p.stdout.strip().splitlines()[-1])
    if v[0]:
        return K.Outcome('violated', v[1], v[2], v[3])
    return K.Outcome('ok')


def determinism(verif_seed, n=40):
    """Same seeds in two fresh interpreters under different PYTHONHASHSEED values."""
    ds = []
    for hs in ('0', '4242'):
        env = dict(os.environ)
        env['PYTHONHASHSEED'] = hs
        p = subprocess.run([sys.executable, os.path.join(HERE, 'hist.py'), 'digest', str(verif_seed), str(n)],
                           stdout=subprocess.PIPE, stderr=subprocess.PIPE, text=True, env=env, timeout=600,
                           cwd=os.path.dirname(HERE))
        if p.returncode != 0:
            raise K.HarnessError('pysim digest run failed: ' + p.stderr[-1500:])
        ds.append(p.stdout.strip())
    return {'seeds_rerun': n, 'mismatches': 0 if ds[0] == ds[1] else 1, 'hash_seeds': [0, 4242]}


def campaign(verif_seed, runs, workers=16, chunk=100):
    t0 = time.time()
    ranges = [(verif_seed, s, min(s + chunk, runs)) for s in range(0, runs, chunk)]
    total = {'runs': 0, 'cov': {}, 'viol': [], 'samples': [], 'nontrivial_runs': 0}
    ctx = multiprocessing.get_context('fork')
    with ProcessPoolExecutor(max_workers=workers, mp_context=ctx) as ex:
        for r in ex.map(hist.run_range, ranges):
            total['runs'] += r['runs']
            total['nontrivial_runs'] += r['nontrivial_runs']
            for k, v in r['cov'].items():
                if isinstance(v, set):
                    total['cov'].setdefault(k, set()).update(v)
                else:
                    total['cov'][k] = total['cov'].get(k, 0) + v
            total['viol'].extend(r['viol'])
            if len(total['samples']) < 2:
                total['samples'].extend(r['samples'][:1])
    total['viol'].sort(key=lambda v: v['run'])
    total['wall'] = time.time() - t0
    return total


def triage(prop, tier, verif_seed, v):
    text = hist.generate(v['seed'])
    o = outcome_of(text)
    if not o.failed:
        raise K.HarnessError('pysim violation at run %d does not reproduce' % v['run'])
    minimised, tests = K.minimise(outcome_of, text, o.vclass)
    # re-confirm in a fresh interpreter
    p = subprocess.run([sys.executable, '-c',
                        'import sys; sys.path.insert(0, %r); from pysim import hist; '
                        'v = hist.execute(sys.stdin.read()); print(v[1]); sys.exit(1 if v[0] else 0)'
                        % os.path.dirname(HERE)], input=minimised, stdout=subprocess.PIPE, stderr=subprocess.PIPE,
                       text=True, timeout=300)
    if p.returncode != 1 or p.stdout.strip() != o.vclass:
        raise K.HarnessError('minimised pysim trace does not fail identically in a fresh interpreter')
    v = dict(v)
    v['vclass'] = o.vclass
    v['msg'] = outcome_of(minimised).msg
    known = K.match_known(prop, o.vclass, minimised, v['msg'])
    if known:
        return ('known', known)
    path = K.write_replay(prop, 'py-history', tier, verif_seed, v, text, minimised, 'python', tests,
                          {'engine': 'pysim'})
    return ('violation', path)
