// Clock part of the simulated device: real SystemClockLoop under a simulated
// millisecond counter, a scripted reference clock and a durable RTC, plus the
// reference models for C13 (A.1) and C14 (A.2).
#ifndef VERIF_SIM_CLOCK_H
#define VERIF_SIM_CLOCK_H

#include "common.h"
#include <AceCommon.h>
#include <ace_time/clock/Clock.h>
#include <ace_time/testing/FakeClock.h>
// Build variant "plain32" (-DSIM_ULONG32): the only AceTime headers that say `long` are the four clock
// headers below, and on every Arduino target `unsigned long` is 32 bits wide while on this host it is 64
// (no 32-bit multilib to link against). Compiling exactly these headers with `long` read as `int` gives
// SystemClockLoop::loop() the target's 32-bit millisecond arithmetic, so that the 2^32 counter wrap is
// executed, not just modelled. Every simulator TU includes this header before <AceTime.h>, so all TUs
// agree on the class layouts. (Redefining a keyword is not ISO C++; clang does what one expects.)
#ifdef SIM_ULONG32
#define long int
#endif
#include <ace_time/clock/SystemClockLoop.h>
#include <ace_time/testing/FakeMillis.h>
#include <ace_time/testing/TestableSystemClockLoop.h>
typedef unsigned long sim_ulong_t;   // AceTime's `unsigned long` as compiled in this variant
#ifdef SIM_ULONG32
#undef long
#endif

namespace sim {

typedef ace_time::acetime_t acetime_t;
static const acetime_t kInvalid = ace_time::clock::Clock::kInvalidSeconds;

// ---------------------------------------------------------------------------
// Environment pieces (STUB components, simulator-owned).

// Durable backup clock: survives REBOOT. Records the setNow() it receives.
class SimRtc : public ace_time::testing::FakeClock {
 public:
  void setNow(acetime_t s) override {
    ace_time::testing::FakeClock::setNow(s);
    setCalls++; lastSet = s;
  }
  void beginCall() { setCalls = 0; }
  int setCalls = 0;
  acetime_t lastSet = 0;
};

struct RefPlan {
  enum Kind { VALID, ABS, SAME, INVALID, LOST, STALE };
  Kind kind = VALID;
  int64_t lat = 10;   // ms until the answer becomes ready
  int64_t val = 0;    // VALID: offset (s) from the reference's true time; ABS: absolute seconds
};

// Scripted reference clock (NTP / RTC stand-in). Derives from the repo's own
// FakeClock; all behaviour comes from a per-request-ordinal plan.
class SimRefClock : public ace_time::testing::FakeClock {
 public:
  static const int64_t kNever = INT64_MAX / 4;

  // simulator wiring
  const int64_t* nowMs = nullptr;                 // simulated true time
  const ace_time::clock::Clock* sameSource = nullptr;  // control clock, for SAME answers
  std::map<int, RefPlan> plan;
  int64_t refBase = 650000000;                    // reference true time at t=0
  bool faultsStopped = false;

  // state
  mutable int nextOrdinal = 0;
  mutable bool outstanding = false;   // a request was sent and not yet read
  mutable int64_t sentAt = 0, readyAt = kNever;
  mutable RefPlan cur;
  mutable bool haveStale = false;     // an unanswered, answerable request was abandoned
  mutable int64_t staleReadyAt = 0;
  mutable acetime_t staleVal = 0;
  mutable acetime_t curVal = 0;       // value fixed at send time for VALID/ABS/STALE

  // per-call recording
  mutable int sentCalls = 0, readCalls = 0, readyQueries = 0, setCalls = 0;
  mutable int seq = 0, sendSeq = 0, readSeq = 0;   // order of the (last) send and read inside one loop() call
  mutable acetime_t lastRead = 0;
  acetime_t lastSet = 0;
  void beginCall() const { sentCalls = readCalls = readyQueries = 0; setCalls = 0; seq = sendSeq = readSeq = 0; }

  acetime_t trueNow() const { return (acetime_t)(refBase + *nowMs / 1000); }

  void sendRequest() const override {
    sentCalls++; sendSeq = ++seq;
    // the previous request, if never read and answerable, becomes a stale datagram
    if (outstanding && readyAt < kNever && cur.kind != RefPlan::INVALID) {
      haveStale = true; staleReadyAt = readyAt; staleVal = curVal;
    }
    int k = nextOrdinal++;
    RefPlan p;  // default (also once faults have stopped): VALID, ready at once, true time
    p.lat = 0;
    std::map<int, RefPlan>::const_iterator it = plan.find(k);
    if (!faultsStopped && it != plan.end()) p = it->second;
    cur = p;
    sentAt = *nowMs;
    outstanding = true;
    switch (p.kind) {
      case RefPlan::LOST: readyAt = kNever; curVal = kInvalid; break;
      case RefPlan::STALE:
        if (haveStale) {
          readyAt = staleReadyAt > sentAt ? staleReadyAt : sentAt;
          curVal = staleVal;
          break;
        }
        // nothing stale in flight: behaves as VALID
        cur.kind = RefPlan::VALID;
        // fallthrough
      case RefPlan::VALID: readyAt = sentAt + p.lat; curVal = 0; break;  // value computed at read time
      case RefPlan::ABS: readyAt = sentAt + p.lat; curVal = (acetime_t)p.val; break;
      case RefPlan::SAME: readyAt = sentAt + p.lat; curVal = 0; break;
      case RefPlan::INVALID: readyAt = sentAt + p.lat; curVal = kInvalid; break;
    }
    haveStale = false;
  }
  bool isResponseReady() const override {
    readyQueries++;
    return outstanding && *nowMs >= readyAt;
  }
  bool readyNow() const { return outstanding && *nowMs >= readyAt; }
  acetime_t currentAnswer() const {
    switch (cur.kind) {
      case RefPlan::VALID: return (acetime_t)(trueNow() + cur.val);
      case RefPlan::SAME: {
        acetime_t v = sameSource ? sameSource->getNow() : trueNow();
        return v == kInvalid ? trueNow() : v;
      }
      case RefPlan::INVALID: case RefPlan::LOST: return kInvalid;
      default: return curVal;
    }
  }
  acetime_t readResponse() const override {
    readCalls++; readSeq = ++seq;
    // reading when nothing is ready, or when no request is outstanding at all: an error value (there is no
    // datagram to read; a machine that re-reads an answer it has already consumed gets nothing)
    acetime_t v = (outstanding && *nowMs >= readyAt) ? currentAnswer() : kInvalid;
    if (outstanding && *nowMs >= readyAt) outstanding = false;
    lastRead = v;
    return v;
  }
  acetime_t getNow() const override { return trueNow(); }
  void setNow(acetime_t s) override { setCalls++; lastSet = s; }
};

// Forwarding subclass for non-default (sync, initial, timeout) configurations.
// The default configuration uses the repo's own TestableSystemClockLoop.
class SimLoopClock : public ace_time::clock::SystemClockLoop {
 public:
  SimLoopClock(ace_time::clock::Clock* ref, ace_time::clock::Clock* bak,
      uint16_t sync, uint16_t init, uint16_t tmo, ace_time::testing::FakeMillis* fm,
      ace_common::TimingStats* ts)
      : SystemClockLoop(ref, bak, sync, init, tmo, ts), mFakeMillis(fm) {}
  sim_ulong_t clockMillis() const override { return mFakeMillis->millis(); }
 private:
  ace_time::testing::FakeMillis* mFakeMillis;
};

// ---------------------------------------------------------------------------
// A.1 — reference clock model for C13.
struct KeepModel {
  static const int64_t kMaxGap = 64536;
  struct Cand { int64_t T, aLo, aHi, lastPoll; bool susp; };
  std::vector<Cand> cands;
  bool hasLast = false;
  int64_t last = 0;
  bool everStalled = false;

  void reset() { cands.clear(); hasLast = false; }
  bool isSet() const { return !cands.empty(); }
  bool anySuspended() const {
    for (size_t i = 0; i < cands.size(); i++) if (cands[i].susp) return true;
    return false;
  }
  // returns true when a stall newly fired
  bool stallTest(int64_t m) {
    bool fired = false;
    for (size_t i = 0; i < cands.size(); i++)
      if (!cands[i].susp && m - cands[i].lastPoll > kMaxGap) { cands[i].susp = true; fired = true; }
    if (fired) everStalled = true;
    return fired;
  }
  static bool narrow(Cand& c, int64_t m, int64_t r) {
    int64_t k = r - c.T;
    if (k < 0) return false;
    int64_t lo = m - 1000 * k - 999, hi = m - 1000 * k;
    if (lo > c.aLo) c.aLo = lo;
    if (hi < c.aHi) c.aHi = hi;
    return c.aLo <= c.aHi;
  }
  // the readings the model allows at m (for messages)
  std::string expected(int64_t m) const {
    std::string s;
    for (size_t i = 0; i < cands.size(); i++) {
      const Cand& c = cands[i];
      int64_t r1 = c.T + (m - c.aHi) / 1000, r2 = c.T + (m - c.aLo) / 1000;
      s += fmt("%s%lld", s.empty() ? "" : "|", (long long)r1);
      if (r2 != r1) s += fmt("..%lld", (long long)r2);
    }
    return s;
  }
  // unobserved poll (loop()/keepAlive)
  void onPoll(int64_t m) {
    stallTest(m);
    for (size_t i = 0; i < cands.size(); i++) cands[i].lastPoll = m;
  }
  // observed reading; returns violation class or ""
  std::string onRead(int64_t m, int64_t r, bool isInit, std::string& msg) {
    if (cands.empty()) {
      if (r != kInvalid) { msg = fmt("never set, but getNow()=%lld", (long long)r); return "c13-uninit"; }
      if (isInit) { msg = "never set, but isInit() is true"; return "c13-uninit"; }
      return "";
    }
    if (!isInit) { msg = "set, but isInit() is false"; return "c13-uninit"; }
    stallTest(m);
    for (size_t i = 0; i < cands.size(); i++) cands[i].lastPoll = m;
    if (hasLast && r < last) {
      msg = fmt("reading went from %lld to %lld with no set in between", (long long)last, (long long)r);
      return "c13-monotone";
    }
    if (!anySuspended()) {
      std::string exp = expected(m);
      std::vector<Cand> keep;
      for (size_t i = 0; i < cands.size(); i++) {
        Cand c = cands[i];
        if (narrow(c, m, r)) keep.push_back(c);
      }
      if (keep.empty()) {
        msg = fmt("at t=%lld ms getNow()=%lld, model T+floor((m-m0)/1000) allows %s",
            (long long)m, (long long)r, exp.c_str());
        return "c13-exact";
      }
      cands.swap(keep);
    }
    hasLast = true; last = r;
    return "";
  }
  void onSet(int64_t m, int64_t v) {
    if (v == kInvalid) return;
    stallTest(m);
    if (anySuspended() || cands.size() > 6) {
      // the clock's own reading is unknown (or the model is saturated): any sub-second phase
      bool sat = !anySuspended();
      cands.clear();
      Cand c = { v, sat ? m - 999 : m - 999, m, m, false };
      cands.push_back(c);
    } else {
      std::vector<Cand> keep;
      for (size_t i = 0; i < cands.size(); i++) {
        Cand c = cands[i];
        // "already shows v": T + floor((m-a)/1000) == v
        if (narrow(c, m, v)) keep.push_back(c);
      }
      Cand re = { v, m, m, m, false };
      keep.push_back(re);
      cands.swap(keep);
    }
    hasLast = false;
  }
};

// ---------------------------------------------------------------------------
// A.2 — sync state-machine model for C14.
struct SyncCfg {
  uint32_t sync = 3600, init = 5, tmo = 1000;
  int ref = 1;      // 0 none, 1 distinct reference, 2 reference object is also the backup
  bool bak = true;  // a backup exists (when ref==2 it is the reference object)
};

struct SyncModel {
  enum Phase { IDLE, WAITING };
  enum After { BOOT, SUCCESS, FAILURE };
  SyncCfg cfg;
  std::set<uint32_t> C;
  Phase phase = IDLE;
  After after = BOOT;
  // dueMin: earliest admissible instant of the next request (rule 3). dueExpect: where the shipped schedule places
  // it (used only to aim ADVDL / DRAIN at the interesting instants). dueMax: the liveness bound (rule 5) - the
  // statement promises "a bounded time" and names no schedule, so the bound is one full largest period after the
  // event that started the wait, whichever of the admissible schedules the machine follows.
  // dueMax is measured in POLLED time (`polled`): simulated milliseconds that went by between loop() calls at most
  // 64,536 ms apart, the premise under which the clock itself keeps time (C13). A machine that times its waits on its own
  // clock's seconds is as bounded as one that uses millis(), but no machine can be held to a deadline that passed
  // while nobody called it.
  int64_t dueMin = INT64_MIN / 4, dueExpect = 0, dueMax = 0, start = 0, polled = 0;
  // A machine sees time only at loop() calls. The model declares a time-out at the first call AT or after the instant;
  // a machine that compares strictly notices it at the first call AFTER it - possibly much later, if calls are sparse -
  // and may count its back-off from there. So the liveness bound of a failure is re-based at the first call at which
  // simulated time has moved on.
  bool rebasePending = false;
  int64_t failT = 0;
  int overdue = 0, unread = 0, failStreak = 0;
  uint64_t requests = 0, successes = 0, failures = 0;

  void boot(const SyncCfg& c, int64_t now) {
    cfg = c; C.clear(); C.insert(c.init);
    if (c.init > c.sync) C.insert(c.sync);   // "up to the sync period": a machine may clamp the initial period at once
    phase = IDLE; after = BOOT; dueMin = INT64_MIN / 4; dueExpect = now; dueMax = polled + maxPeriodMs();
    overdue = unread = failStreak = 0;
    rebasePending = false;
  }
  // one largest period, plus one second: a machine that waits on whole seconds of its own clock (whose sub-second
  // phase is arbitrary) is up to 999 ms later than one that waits on milliseconds, and just as bounded
  int64_t maxPeriodMs() const { return (int64_t)(cfg.init > cfg.sync ? cfg.init : cfg.sync) * 1000 + 1000; }
  uint32_t minC() const { return *C.begin(); }
  uint32_t maxC() const { return *C.rbegin(); }
  void advanceC() {
    std::set<uint32_t> n;
    for (std::set<uint32_t>::iterator it = C.begin(); it != C.end(); ++it) {
      uint64_t c = *it;
      n.insert((uint32_t)(2 * c < cfg.sync ? 2 * c : cfg.sync));
      if (2 * c + 1 >= cfg.sync) n.insert(cfg.sync);
    }
    C.swap(n);
  }
  void fail(int64_t f) {
    int64_t P = minC(), Q = maxC();
    int64_t dm = start + Q * 1000;
    phase = IDLE; after = FAILURE;
    dueMin = start + P * 1000;
    dueExpect = f > dm ? f : dm;
    dueMax = polled + maxPeriodMs();
    rebasePending = true; failT = f;
    advanceC();
    overdue = 0; failStreak++; failures++;
  }
  // next instant at which the model expects something to happen (for ADVDL / DRAIN)
  int64_t nextDeadline(int64_t now, int64_t readyAt) const {
    if (phase == WAITING) {
      int64_t t = start + (int64_t)cfg.tmo;
      if (readyAt < t) t = readyAt;
      return t;
    }
    return now <= dueExpect + 2 ? dueExpect : now + (dueMax > polled ? dueMax - polled : 0);
  }
};

struct ClockOpts {
  bool armC13 = false, armC14 = false;
  bool wrap32 = false;  // feed (uint32_t) counter (C13 profile); otherwise unwrapped
};

// ---------------------------------------------------------------------------
class ClockDevice {
 public:
  ClockDevice(const ClockOpts& o) : opts(o) {}
  ~ClockDevice() { destroy(); }

  void configure(const std::vector<std::string>& toks);   // CFG CLOCK ... / REF ...
  // returns true if the op keyword belonged to the clock part
  bool exec(const std::vector<std::string>& toks, int opIndex, Verdict& v, Coverage& cov);
  void finish(Coverage& cov);
  int64_t now() const { return t; }

  // exposed for the device profile (the tz part reads the clock)
  ace_time::clock::SystemClockLoop* clock() { return primary; }

 private:
  void build();
  void destroy();
  void setMillis() { fm.millis(opts.wrap32 ? (sim_ulong_t)(uint32_t)(boot + t) : (sim_ulong_t)(boot + t)); }
  acetime_t probe(int opIndex, Verdict& v, const char* where);
  void doLoop(int opIndex, Verdict& v, Coverage& cov);
  void noteLoopGap();
  void doSet(acetime_t val, int opIndex, Verdict& v, Coverage& cov, const char* kind);
  void advance(int64_t d, Coverage& cov);

  ClockOpts opts;
  SyncCfg cfg;
  uint64_t boot = 0;
  int64_t t = 0;        // simulated true milliseconds since the run began
  int64_t lastPollT = 0;  // for gap statistics
  bool useTestable = false, useStats = false;
  bool probes = true;   // C14, reference mode: read the primary right before and after every loop() (see doLoop)

  ace_time::testing::FakeMillis fm;
  SimRtc rtc;            // durable
  SimRefClock ref;       // environment
  ace_common::TimingStats stats;
  ace_time::clock::SystemClockLoop* primary = nullptr;
  ace_time::clock::SystemClockLoop* control = nullptr;  // C14 only: same class, no ref, no backup

  KeepModel keep;   // C13
  SyncModel sync;   // C14
  SyncModel syncBeforeTimeout;      // snapshot taken when the model decides "timed out" (see doLoop)
  bool timeoutSnapshotValid = false;
  int64_t timeoutSnapshotT = -1;    // the loop() call at which the model declared the time-out
  int64_t lastLoopT = -1;           // previous loop() call (polled-time accounting is LOOP to LOOP)
  int64_t prevLoopT = -1;
  bool built = false;
  int64_t carryAtSet = 0;
  bool syncSet = false;   // clock-keep with a reference clock (CFG syncset=1)
  bool sawCarryGap = false, sawFailThenSuccess = false, sawFail = false;
 public:
  bool nontrivial() const { return opts.armC13 ? sawCarryGap : sawFailThenSuccess; }
};

// Exhaustive (start phase x single poll gap) sweep for C13, thorough tier supplement.
int sweepClockKeep(uint32_t phaseFrom, uint32_t phaseCount);
// Bounded exhaustive enumeration for C14 (thorough tier supplement): all op sequences to a depth bound.
int enumClockSync(unsigned job, unsigned jobs, unsigned depth);
Trace genClockKeep(uint64_t seed);
Trace genClockSync(uint64_t seed);

}  // namespace sim
#endif
