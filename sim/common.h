// simdev — deterministic simulated AceTime device. Common utilities.
// No std::*_distribution, no rand(), no clock reads, no addresses in any
// decision or log line: one integer (the run seed) decides everything.
#ifndef VERIF_SIM_COMMON_H
#define VERIF_SIM_COMMON_H

#include <stdint.h>
#include <stdio.h>
#include <stdlib.h>
#include <stdarg.h>
#include <string.h>
#include <string>
#include <vector>
#include <map>
#include <set>

namespace sim {

inline uint64_t splitmix64(uint64_t& x) {
  uint64_t z = (x += 0x9e3779b97f4a7c15ULL);
  z = (z ^ (z >> 30)) * 0xbf58476d1ce4e5b9ULL;
  z = (z ^ (z >> 27)) * 0x94d049bb133111ebULL;
  return z ^ (z >> 31);
}

// run seed = f(VERIF_SEED, profile, run index); tier does not enter so that a
// seed found by the thorough tier replays identically from the quick tier.
inline uint64_t deriveSeed(uint64_t verifSeed, const char* profile, uint64_t runIndex) {
  uint64_t h = 0x243f6a8885a308d3ULL ^ verifSeed;
  uint64_t s = splitmix64(h);
  for (const char* p = profile; *p; ++p) { h ^= (uint8_t)*p; s ^= splitmix64(h); }
  h ^= runIndex * 0x9e3779b97f4a7c15ULL;
  s ^= splitmix64(h);
  h = s;
  return splitmix64(h);
}

class Rng {  // xoshiro256**
 public:
  explicit Rng(uint64_t seed) {
    uint64_t x = seed;
    for (int i = 0; i < 4; i++) s[i] = splitmix64(x);
  }
  uint64_t next() {
    uint64_t r = rotl(s[1] * 5, 7) * 9, t = s[1] << 17;
    s[2] ^= s[0]; s[3] ^= s[1]; s[1] ^= s[2]; s[0] ^= s[3];
    s[2] ^= t; s[3] = rotl(s[3], 45);
    return r;
  }
  // uniform in [0, n) (n > 0); modulo bias is irrelevant here and keeps it portable
  uint64_t below(uint64_t n) { return next() % n; }
  // uniform in [lo, hi] inclusive
  int64_t range(int64_t lo, int64_t hi) {
    return lo + (int64_t)below((uint64_t)(hi - lo) + 1);
  }
  bool chance(unsigned num, unsigned den) { return below(den) < num; }
  template <typename T> const T& pick(const std::vector<T>& v) { return v[below(v.size())]; }
 private:
  static uint64_t rotl(uint64_t x, int k) { return (x << k) | (x >> (64 - k)); }
  uint64_t s[4];
};

// ---------------------------------------------------------------------------
// Trace: a list of text lines. Line 0 is "PROFILE <name>"; "CFG ..." lines
// configure the device; every other line is one op. Every op is total (a no-op
// when it names an empty slot) so any subsequence of a trace is a trace.
struct Trace {
  std::string profile;
  std::vector<std::string> lines;  // without the PROFILE line
  std::string text() const {
    std::string out = "PROFILE " + profile + "\n";
    for (size_t i = 0; i < lines.size(); i++) { out += lines[i]; out += '\n'; }
    return out;
  }
};

inline std::vector<std::string> splitWs(const std::string& s) {
  std::vector<std::string> out;
  size_t i = 0, n = s.size();
  while (i < n) {
    while (i < n && (s[i] == ' ' || s[i] == '\t')) i++;
    if (i >= n || s[i] == '#') break;
    size_t j = i;
    while (j < n && s[j] != ' ' && s[j] != '\t') j++;
    out.push_back(s.substr(i, j - i));
    i = j;
  }
  return out;
}

// "key=value" lookup among tokens; returns def when absent.
inline long long kvInt(const std::vector<std::string>& toks, const char* key, long long def) {
  size_t kl = strlen(key);
  for (size_t i = 0; i < toks.size(); i++) {
    if (toks[i].size() > kl && toks[i].compare(0, kl, key) == 0 && toks[i][kl] == '=')
      return strtoll(toks[i].c_str() + kl + 1, nullptr, 10);
  }
  return def;
}
inline std::string kvStr(const std::vector<std::string>& toks, const char* key, const char* def) {
  size_t kl = strlen(key);
  for (size_t i = 0; i < toks.size(); i++) {
    if (toks[i].size() > kl && toks[i].compare(0, kl, key) == 0 && toks[i][kl] == '=')
      return toks[i].substr(kl + 1);
  }
  return def;
}
inline long long tokInt(const std::vector<std::string>& toks, size_t i, long long def) {
  return i < toks.size() ? strtoll(toks[i].c_str(), nullptr, 10) : def;
}

inline std::string fmt(const char* f, ...) __attribute__((format(printf, 1, 2)));
inline std::string fmt(const char* f, ...) {
  char buf[512];
  va_list ap;
  va_start(ap, f);
  vsnprintf(buf, sizeof(buf), f, ap);
  va_end(ap);
  return buf;
}

// ---------------------------------------------------------------------------
// Result of executing one trace.
struct Verdict {
  bool violated = false;
  std::string vclass;   // violation class (oracle clause), stable across shrinking
  std::string message;  // human-readable detail
  int opIndex = -1;     // index into trace.lines of the op that tripped the oracle
  std::vector<std::string> notes;  // non-violation notes (e.g. relaxed oracle)
  void fail(const std::string& c, const std::string& m, int op) {
    if (violated) return;  // first violation wins: deterministic
    violated = true; vclass = c; message = m; opIndex = op;
  }
};

// Coverage accumulated over a batch: named counters, and named sets of cells.
struct Coverage {
  std::map<std::string, uint64_t> counters;            // faults fired, probes hit, ops
  std::map<std::string, std::set<std::string> > cells;  // distinct coverage cells per measure
  void count(const std::string& k, uint64_t n = 1) { counters[k] += n; }
  void cell(const std::string& measure, const std::string& c) { cells[measure].insert(c); }
};

inline std::string jsonEscape(const std::string& s) {
  std::string o;
  for (size_t i = 0; i < s.size(); i++) {
    unsigned char c = s[i];
    if (c == '"' || c == '\\') { o += '\\'; o += c; }
    else if (c == '\n') o += "\\n";
    else if (c < 0x20 || c >= 0x7f) { char b[8]; snprintf(b, sizeof b, "\\u%04x", c); o += b; }
    else o += c;
  }
  return o;
}

}  // namespace sim
#endif
