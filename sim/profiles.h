#ifndef VERIF_SIM_PROFILES_H
#define VERIF_SIM_PROFILES_H
#include "common.h"

namespace sim {

// Large dense coverage sets (e.g. (zone, cached year, queried year) triples) are kept as a
// bitmap that is OR-ed across batches by the orchestrator.
struct Bitmap {
  std::string path;
  std::vector<uint8_t> bits;
  void set(size_t i) {
    if (i / 8 >= bits.size()) bits.resize(i / 8 + 1, 0);
    bits[i / 8] |= (uint8_t)(1u << (i % 8));
  }
  void save() const {
    if (path.empty()) return;
    FILE* f = fopen(path.c_str(), "wb");
    if (!f) return;
    if (!bits.empty()) fwrite(&bits[0], 1, bits.size(), f);
    fclose(f);
  }
};

// Undefined-behaviour reports (sanitizer build, recoverable): the UBSan runtime calls
// __ubsan_on_report(), which parks the report here; the executor loop picks it up after the op.
struct UbReport { bool pending; char kind[64]; char file[256]; unsigned line; char msg[256]; };
extern UbReport g_ub;
extern bool g_ubCollect;   // batch mode: print a UBHIT line and carry on instead of failing the run
extern unsigned long long g_curRun, g_curSeed;
extern unsigned g_pristineEvery;   // batch mode: every n-th run is also compared with the pristine reference process
void ubAfterOp(Verdict& v, int opIndex, const std::string& opLine);

// index of the op being executed (for crash recovery in batch mode)
extern volatile int g_curOp;

bool generate(const std::string& profile, uint64_t seed, Trace& out);
// Executes the trace against the real code and the profile's reference model in lock-step.
bool execute(const Trace& tr, Verdict& v, Coverage& cov, bool& nontrivial, Bitmap* bm);

}  // namespace sim
#endif
