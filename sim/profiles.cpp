#include "profiles.h"
#include "clock.h"
#include "tz.h"

namespace sim {

volatile int g_curOp = -1;
UbReport g_ub = { false, "", "", 0, "" };
bool g_ubCollect = false;
unsigned long long g_curRun = 0, g_curSeed = 0;
unsigned g_pristineEvery = 1;

void ubAfterOp(Verdict& v, int opIndex, const std::string& opLine) {
  if (!g_ub.pending) return;
  g_ub.pending = false;
  const char* base = strrchr(g_ub.file, '/');
  base = base ? base + 1 : g_ub.file;
  std::string kind = g_ub.kind;
  for (size_t i = 0; i < kind.size(); i++) if (kind[i] == ' ') kind[i] = '-';
  std::string cls = fmt("ub:%s@%s:%u", kind.c_str(), base, g_ub.line);
  if (g_ubCollect) {
    printf("UBHIT run=%llu seed=%llu class=%s file=%s op=\"%s\" msg=\"%s\"\n", g_curRun, g_curSeed, cls.c_str(), g_ub.file,
        jsonEscape(opLine).c_str(), jsonEscape(g_ub.msg).c_str());
    return;
  }
  {
    // SIM_IGNORE_UB=cls1,cls2: classes the orchestrator asks replay to skip (listed known findings)
    const char* ig = getenv("SIM_IGNORE_UB");
    if (ig) {
      std::string l = std::string(",") + ig + ",";
      if (l.find("," + cls + ",") != std::string::npos) return;
    }
  }
  v.fail(cls, fmt("%s (%s:%u) while executing: %s", g_ub.msg, g_ub.file, g_ub.line, opLine.c_str()), opIndex);
}

bool generate(const std::string& profile, uint64_t seed, Trace& out) {
  if (profile == "clock-keep") { out = genClockKeep(seed); return true; }
  if (profile == "clock-sync") { out = genClockSync(seed); return true; }
  if (profile == "tz-history" || profile == "tz-restore" || profile == "device") {
    out = genTz(profile, seed); return true;
  }
  return false;
}

static bool execClockOnly(const Trace& tr, Verdict& v, Coverage& cov, bool& nontrivial) {
  ClockOpts o;
  o.armC13 = tr.profile == "clock-keep";
  o.armC14 = tr.profile == "clock-sync";
  o.wrap32 = o.armC13;
  ClockDevice dev(o);
  for (size_t i = 0; i < tr.lines.size() && !v.violated; i++) {
    g_curOp = (int)i;
    std::vector<std::string> toks = splitWs(tr.lines[i]);
    if (toks.empty()) continue;
    if (toks[0] == "CFG" || toks[0] == "REF") { dev.configure(toks); continue; }
    dev.exec(toks, (int)i, v, cov);
    ubAfterOp(v, (int)i, tr.lines[i]);
  }
  dev.finish(cov);
  nontrivial = dev.nontrivial();
  return true;
}

bool execute(const Trace& tr, Verdict& v, Coverage& cov, bool& nontrivial, Bitmap* bm) {
  if (tr.profile == "clock-keep" || tr.profile == "clock-sync") return execClockOnly(tr, v, cov, nontrivial);
  if (tr.profile == "tz-history" || tr.profile == "tz-restore" || tr.profile == "device")
    return execTz(tr, v, cov, nontrivial, bm);
  return false;
}

}  // namespace sim
