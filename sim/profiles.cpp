#include "profiles.h"
#include "clock.h"
#include "tz.h"

namespace sim {

volatile int g_curOp = -1;

bool generate(const std::string& profile, uint64_t seed, Trace& out) {
  if (profile == "clock-keep") { out = genClockKeep(seed); return true; }
  if (profile == "clock-sync") { out = genClockSync(seed); return true; }
  if (profile == "tz-history" || profile == "tz-restore" || profile == "device") {
    out = genTz(profile, seed); return true;
  }
  return false;
}

static bool execClockOnly(const Trace& tr, Verdict& v, Coverage& cov, bool& nontrivial) {
  ClockOpts o;
  o.armC13 = tr.profile == "clock-keep";
  o.armC14 = tr.profile == "clock-sync";
  o.wrap32 = o.armC13;
  ClockDevice dev(o);
  for (size_t i = 0; i < tr.lines.size() && !v.violated; i++) {
    g_curOp = (int)i;
    std::vector<std::string> toks = splitWs(tr.lines[i]);
    if (toks.empty()) continue;
    if (toks[0] == "CFG" || toks[0] == "REF") { dev.configure(toks); continue; }
    dev.exec(toks, (int)i, v, cov);
  }
  dev.finish(cov);
  nontrivial = dev.nontrivial();
  return true;
}

bool execute(const Trace& tr, Verdict& v, Coverage& cov, bool& nontrivial, Bitmap* bm) {
  if (tr.profile == "clock-keep" || tr.profile == "clock-sync") return execClockOnly(tr, v, cov, nontrivial);
  if (tr.profile == "tz-history" || tr.profile == "tz-restore" || tr.profile == "device")
    return execTz(tr, v, cov, nontrivial, bm);
  return false;
}

}  // namespace sim
