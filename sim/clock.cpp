#include "clock.h"

namespace sim {

using ace_time::clock::SystemClockLoop;

static const int kMaxIdleCallsPastDeadline = 6;

static RefPlan::Kind parseKind(const std::string& s) {
  if (s == "ABS") return RefPlan::ABS;
  if (s == "SAME") return RefPlan::SAME;
  if (s == "INVALID") return RefPlan::INVALID;
  if (s == "LOST") return RefPlan::LOST;
  if (s == "STALE") return RefPlan::STALE;
  return RefPlan::VALID;
}
void ClockDevice::configure(const std::vector<std::string>& toks) {
  if (toks.empty()) return;
  if (toks[0] == "REF") {
    RefPlan p;
    int k = (int)tokInt(toks, 1, 0);
    p.kind = parseKind(toks.size() > 2 ? toks[2] : "VALID");
    p.lat = kvInt(toks, "lat", 10);
    if (p.lat < 0) p.lat = 0;
    p.val = kvInt(toks, "val", 0);
    ref.plan[k] = p;
    return;
  }
  // CFG CLOCK ...
  cfg.sync = (uint32_t)kvInt(toks, "sync", 3600) & 0xffff;
  cfg.init = (uint32_t)kvInt(toks, "init", 5) & 0xffff;
  cfg.tmo = (uint32_t)kvInt(toks, "tmo", 1000) & 0xffff;
  std::string r = kvStr(toks, "ref", "distinct");
  cfg.ref = r == "none" ? 0 : (r == "same" ? 2 : 1);
  cfg.bak = kvInt(toks, "bak", 1) != 0;
  boot = (uint64_t)kvInt(toks, "boot", 0);
  useTestable = kvInt(toks, "testable", 0) != 0
      && cfg.sync == 3600 && cfg.init == 5 && cfg.tmo == 1000;
  useStats = kvInt(toks, "stats", 0) != 0;
  probes = kvInt(toks, "probe", 1) != 0;
  syncSet = kvInt(toks, "syncset", 0) != 0;
  ref.refBase = kvInt(toks, "refbase", 650000000);
  rtc.ace_time::testing::FakeClock::setNow((acetime_t)kvInt(toks, "rtc", 0));
}

void ClockDevice::destroy() {
  delete primary; primary = nullptr;
  delete control; control = nullptr;
  built = false;
}

void ClockDevice::build() {
  destroy();
  // clock-keep: timekeeping only, unless the run asks for settings that arrive through the sync path (syncset=1: a
  // distinct reference clock; a consumed valid answer is a setting like any other). A shrunk CFG line means "none".
  if (opts.armC13) cfg.ref = syncSet ? 1 : 0;
  ace_time::clock::Clock* r = cfg.ref == 0 ? nullptr : &ref;
  ace_time::clock::Clock* b = nullptr;
  if (cfg.ref == 2) b = &ref;          // backup object is the reference object
  else if (cfg.bak) b = &rtc;
  ref.nowMs = &t;
  if (useTestable) {
    primary = new ace_time::testing::TestableSystemClockLoop(r, b, &fm);
  } else {
    primary = new SimLoopClock(r, b, cfg.sync, cfg.init, cfg.tmo, &fm, useStats ? &stats : nullptr);
  }
  if (opts.armC14) {
    control = new SimLoopClock(nullptr, nullptr, cfg.sync, cfg.init, cfg.tmo, &fm, nullptr);
    ref.sameSource = control;
  } else {
    ref.sameSource = primary;
  }
  ref.outstanding = false; ref.haveStale = false;
  keep.reset();
  sync.boot(cfg, t);
  timeoutSnapshotValid = false; prevLoopT = -1; lastLoopT = t;
  lastPollT = t;
  built = true;
  setMillis();
}

void ClockDevice::advance(int64_t d, Coverage& cov) {
  if (d < 0) d = 0;
  t += d;
  setMillis();
  cov.count("sim_ms", (uint64_t)d);
}

static int gapBucket(int64_t g) {
  if (g < 1000) return 0;
  if (g == 1000) return 1;
  if (g < 2000) return 2;
  if (g < 10000) return 3;
  if (g < 32768) return 4;
  if (g < 64536) return 5;
  if (g == 64536) return 6;
  return 7;
}

acetime_t ClockDevice::probe(int opIndex, Verdict& v, const char* where) {
  acetime_t r = primary->getNow();
  if (opts.armC14 && control) {
    acetime_t c = control->getNow();
    if (r != c) {
      v.fail("c14-corrupt", fmt("%s at t=%lld ms: clock reads %ld but the control clock (same "
          "timekeeping code, no sync machine, same sets and applied responses) reads %ld",
          where, (long long)t, (long)r, (long)c), opIndex);
    }
  }
  return r;
}

void ClockDevice::doSet(acetime_t val, int opIndex, Verdict& v, Coverage& cov, const char* kind) {
  if (kind[1] == 'Y') cov.count("fault.sync_set");   // "SYNC": set through the reference clock's answer
  else if (val == kInvalid) cov.count("fault.user_set_sentinel");
  else cov.count("fault.user_set");
  if (opts.armC13) {
    // is the model currently showing val? (same-value set)
    if (val != kInvalid && keep.isSet() && !keep.anySuspended()) {
      for (size_t i = 0; i < keep.cands.size(); i++) {
        KeepModel::Cand c = keep.cands[i];
        if (KeepModel::narrow(c, t, val)) { cov.count("fault.user_set_same"); break; }
      }
    }
    keep.onSet(t, val);
    if (val != kInvalid) carryAtSet = t;
  }
  if (val != kInvalid) lastPollT = t;
  (void)opIndex; (void)v;
}

// Polled time (see SyncModel): credited from one loop() call to the next, when they are at most 64,536 ms apart. A
// longer gap earns nothing, and may cost a machine that keeps its own seconds the sub-second remainder it carried
// (16-bit catch-up arithmetic wraps): one more second of grace.
void ClockDevice::noteLoopGap() {
  int64_t g = t - lastLoopT;
  if (g < 0) g = 0;
  if (g <= KeepModel::kMaxGap) sync.polled += g; else sync.dueMax += 1000;
  lastLoopT = t;
}

void ClockDevice::doLoop(int opIndex, Verdict& v, Coverage& cov) {
  const int64_t now = t;
  if (!opts.armC14) {
    ref.beginCall();
    primary->loop();
    if (opts.armC13) {
      // wrap / gap accounting is done by the caller
      if (keep.stallTest(now)) cov.count("fault.stall");
      if (ref.readCalls > 0 && ref.lastRead != kInvalid) {
        // "After the system clock is set to T when the counter reads m0": a valid answer of the reference clock
        // consumed by this call set the clock to that value at this instant, exactly as setNow() would have.
        doSet(ref.lastRead, opIndex, v, cov, "SYNC");
        if (primary->isInit() != keep.isSet()) {
          v.fail("c13-uninit", fmt("after a sync to %ld: isInit()=%d, model says %d", (long)ref.lastRead,
              primary->isInit() ? 1 : 0, keep.isSet() ? 1 : 0), opIndex);
        }
      } else {
        keep.onPoll(now);
      }
    }
    return;
  }

  if (cfg.ref == 0) {
    // rule 6: with no reference clock loop() only keeps time, i.e. it is worth exactly one
    // keep-alive poll. The control is polled by *reading* it at the same instant and the primary
    // is not probed around the call, so that a loop() which fails to keep the clock alive is not
    // rescued by the harness's own reads. Divergence shows at the next GET.
    acetime_t lsPre0 = primary->getLastSyncTime();
    ref.beginCall(); rtc.beginCall();
    primary->loop();
    control->getNow();
    if (ref.sentCalls || ref.readCalls) {
      v.fail("c14-noref", "no reference clock configured, yet loop() talked to one", opIndex);
    }
    if (rtc.setCalls) {
      v.fail("c14-noref", fmt("no reference clock configured (\"it only keeps time\"), yet loop() wrote %ld to the "
          "backup clock", (long)rtc.lastSet), opIndex);
    }
    if (primary->getLastSyncTime() != lsPre0) {
      v.fail("c14-lastsync", "no reference clock, yet loop() changed getLastSyncTime()", opIndex);
    }
    cov.cell("c14", "noref|loop");
    return;
  }

  // Probing the primary around every call is what makes "applied immediately" checkable at the call itself, but
  // the probe is a getNow(), which catches the clock up: a loop() that forgot to keep the clock alive would be
  // rescued by the harness. So a share of the runs (probe=0) never touches the primary here: the control is polled
  // by reading it, "before" is the control's reading, a consumed valid answer is assumed applied, and any
  // divergence shows at the next GET (c14-corrupt).
  if (sync.rebasePending && now > sync.failT) {
    if (sync.phase == SyncModel::IDLE && sync.after == SyncModel::FAILURE) sync.dueMax = sync.polled + sync.maxPeriodMs();
    sync.rebasePending = false;
  }
  acetime_t pre = probes ? probe(opIndex, v, "before loop()") : control->getNow();
  acetime_t lsPre = primary->getLastSyncTime();
  ref.beginCall(); rtc.beginCall();
  const bool readyBefore = ref.readyNow();
  const int64_t readyAtBefore = ref.readyAt;
  const RefPlan::Kind kindBefore = ref.cur.kind;
  primary->loop();
  if (probes) control->loop();
  const bool sent = ref.sentCalls > 0;
  const bool readHas = ref.readCalls > 0;
  const acetime_t readVal = ref.lastRead;
  const bool readValid = readHas && readVal != kInvalid;
  const bool bakDistinct = cfg.ref == 1 && cfg.bak;
  const bool postKnown = probes;
  acetime_t post = probes ? primary->getNow() : pre;
  acetime_t lsPost = primary->getLastSyncTime();

  if (cfg.ref == 0) {
    // rule 6 cannot be violated through SimRefClock (it is not wired); rule 2 below
  }

  // The model consumes what the call did in the order in which it did it. The shipped code never sends and
  // reads in one call, but a refactoring that does (e.g. reading an instantly ready answer right after sending)
  // keeps the property, so it must not be mistaken for "a late answer of the request given up before".
  auto onSend = [&]() {
    if (sync.phase == SyncModel::IDLE) {
      if (now < sync.dueMin) {
        v.fail("c14-spacing", fmt("request sent at t=%lld ms, only %lld ms after the previous one "
            "(sent at %lld, %s); the smallest admissible period is %u s",
            (long long)now, (long long)(now - sync.start), (long long)sync.start,
            sync.after == SyncModel::SUCCESS ? "which succeeded" : "which failed",
            (unsigned)((sync.dueMin - sync.start) / 1000)), opIndex);
      }
    } else {
      int64_t minNext = sync.start + (int64_t)sync.minC() * 1000;
      if (now < minNext) {
        v.fail("c14-spacing", fmt("a new request was sent at t=%lld ms while the one sent at %lld ms "
            "was still outstanding, %lld ms apart; smallest admissible period %u s",
            (long long)now, (long long)sync.start, (long long)(now - sync.start),
            (unsigned)sync.minC()), opIndex);
      }
      sync.fail(now);
    }
    sync.phase = SyncModel::WAITING; sync.start = now; sync.overdue = sync.unread = 0;
    sync.requests++;
    cov.count("c14.requests");
  };
  const bool both = sent && readHas;
  const bool sentFirst = both && ref.sendSeq < ref.readSeq;
  if (both) cov.count("probe.send_and_read_in_one_call");
  if (sentFirst && cfg.ref != 0) onSend();
  const bool sentNow = sent && !both;

  // When exactly a request counts as timed out is the implementation's call (">= timeout" in the shipped code;
  // "> timeout" would keep the property just as well). The two differ at ONE instant only: a loop() call exactly
  // `timeout` ms after the request. If the model declared its time-out at such a call, no simulated time has been
  // observed by a loop() call since (the previous call was at that very instant), and the answer became ready after
  // it, then consuming the answer now is what a "> timeout" machine does with a request it has not given up yet: the
  // model takes its time-out back and treats the read as a normal one. In every other case a valid answer consumed
  // after the model's time-out is the late answer of a request already given up (rule 2, below).
  if (readValid && !sent && sync.phase == SyncModel::IDLE && sync.after == SyncModel::FAILURE && timeoutSnapshotValid
      && timeoutSnapshotT == syncBeforeTimeout.start + (int64_t)cfg.tmo && prevLoopT == timeoutSnapshotT
      && readyAtBefore > prevLoopT) {
    { int64_t keepPolled = sync.polled; sync = syncBeforeTimeout; sync.polled = keepPolled; }
    timeoutSnapshotValid = false;
    cov.count("probe.timeout_taken_back");
  }
  if (sent) timeoutSnapshotValid = false;
  const bool lateAnswer = sync.phase == SyncModel::IDLE && sync.after == SyncModel::FAILURE && readValid;
  if (lateAnswer) {
    cov.count("probe.late_answer_read_after_giveup");
    if (postKnown && pre != post) {
      v.fail("c14-late-applied", fmt("t=%lld ms: request already failed (timed out / invalid), yet a "
          "late answer %ld was applied: clock %ld -> %ld", (long long)now, (long)readVal,
          (long)pre, (long)post), opIndex);
    }
  } else if (readValid) {
    if (postKnown && post != readVal) {
      v.fail("c14-apply", fmt("t=%lld ms: valid response %ld consumed but getNow()=%ld right after",
          (long long)now, (long)readVal, (long)post), opIndex);
    }
    if (pre != readVal && bakDistinct && !(rtc.setCalls > 0 && rtc.lastSet == readVal)) {
      v.fail("c14-backup", fmt("t=%lld ms: response %ld changed the clock (was %ld) but the distinct "
          "backup clock received %s", (long long)now, (long)readVal, (long)pre,
          rtc.setCalls ? fmt("setNow(%ld)", (long)rtc.lastSet).c_str() : "nothing"), opIndex);
    }
    control->setNow(readVal);
    if (pre == readVal) cov.count("fault.ref_same");
    else {
      int64_t d = (int64_t)readVal - (int64_t)pre;
      if (pre != kInvalid && (d > 1000 || d < -1000)) cov.count("fault.ref_jump");
    }
  } else {
    if (bakDistinct && rtc.setCalls > 0 && rtc.lastSet != pre && rtc.lastSet != post) {
      v.fail("c14-backup", fmt("t=%lld ms: no valid response consumed in this loop() call, yet the distinct backup "
          "clock was set to %ld, which is neither a response nor what the clock reads (%ld)", (long long)now,
          (long)rtc.lastSet, (long)pre), opIndex);
    }
    if (lsPost != lsPre) {
      v.fail("c14-lastsync", fmt("t=%lld ms: no valid response consumed in this loop() yet "
          "getLastSyncTime() went %ld -> %ld", (long long)now, (long)lsPre, (long)lsPost), opIndex);
    }
  }
  if (postKnown) {
    acetime_t c = control->getNow();
    if (post != c) {
      v.fail("c14-corrupt", fmt("after loop() at t=%lld ms: clock reads %ld, control clock reads %ld "
          "(sent=%d read=%s)", (long long)now, (long)post, (long)c, sent ? 1 : 0,
          readHas ? fmt("%ld", (long)readVal).c_str() : "none"), opIndex);
    }
  }
  if (cfg.ref == 0) return;

  // coverage cell: (phase/after, event, back-off level, configuration class)
  const char* ev = "idle";
  const bool late = sync.phase == SyncModel::WAITING && now - sync.start >= (int64_t)cfg.tmo;
  if (sent) ev = "send";
  else if (readValid) ev = "valid";
  else if (readHas) ev = "invalid";
  else if (sync.phase == SyncModel::WAITING) {
    if (readyBefore && late) ev = "race-unread";
    else if (readyBefore) ev = "ready-unread";
    else if (late) ev = "timeout";
    else ev = "waiting";
  } else ev = now >= sync.dueExpect ? (sync.polled > sync.dueMax ? "overdue" : "due") : "before-due";
  if (readValid && late) ev = "race-read";
  {
    int lvl = sync.failStreak > 6 ? 6 : sync.failStreak;
    const char* rel = cfg.init > cfg.sync ? "i>s" : (2 * cfg.init >= cfg.sync ? "2i>=s" : "i<s");
    const char* tc = cfg.tmo == 0 ? "t0" : (cfg.tmo >= cfg.init * 1000 ? "t>=i" : "t<i");
    cov.cell("c14", fmt("%s/%d|%s|L%d|%s,%s,ref%d", sync.phase == SyncModel::IDLE ? "I" : "W",
        (int)sync.after, ev, lvl, rel, tc, cfg.ref));
  }

  if (sync.phase == SyncModel::IDLE) {
    if (sentNow) {
      onSend();
    } else if (sync.polled > sync.dueMax) {
      // counted only once simulated time has moved past the deadline: several loop() calls may fall into the very
      // millisecond of the deadline, and an implementation whose comparisons are strict makes no progress in them
      sync.overdue++;
      // "within a bounded time": the shipped machine needs one idle call between noticing the deadline and sending;
      // a machine with a couple more intermediate states (or a strict time-out comparison on top) still keeps the
      // property, so the bound is generous. Defects that delay a request by seconds exceed it in any densely
      // polled run.
      if (sync.overdue > kMaxIdleCallsPastDeadline) {
        v.fail("c14-liveness", fmt("t=%lld ms: the next request is %lld ms of polled time past the bound (one largest "
            "period after the event that started the wait); %d loop() calls since then sent nothing", (long long)now,
            (long long)(sync.polled - sync.dueMax), sync.overdue), opIndex);
      }
    }
  } else {  // WAITING
    if (sentNow) {
      onSend();
    } else if (readValid) {
      if (late) cov.count("fault.ref_race_read");
      if (kindBefore == RefPlan::STALE) cov.count("fault.ref_stale");
      if (now == sync.start || readyAtBefore == sync.start) cov.count("fault.ref_instant");
      sync.C.clear(); sync.C.insert(cfg.sync);
      sync.phase = SyncModel::IDLE; sync.after = SyncModel::SUCCESS;
      sync.dueMin = sync.start + (int64_t)cfg.sync * 1000;
      sync.dueExpect = now + (int64_t)cfg.sync * 1000;
      sync.dueMax = sync.polled + sync.maxPeriodMs();
      sync.overdue = 0;
      if (sync.failStreak > 0 || sawFail) sawFailThenSuccess = true;
      sync.failStreak = 0; sync.successes++;
      cov.count("c14.successes");
    } else if (readHas) {
      cov.count("fault.ref_invalid");
      sawFail = true;
      sync.fail(now);
    } else if (!readyBefore && late) {
      cov.count(kindBefore == RefPlan::LOST ? "fault.ref_lost" : "fault.ref_late");
      sawFail = true;
      syncBeforeTimeout = sync; timeoutSnapshotValid = true; timeoutSnapshotT = now;
      sync.fail(now);
    } else if (readyBefore && late && readyAtBefore >= sync.start + (int64_t)cfg.tmo) {
      // rule 4: the answer became ready only at/after the time-out instant and this is the first
      // call to see either: applying it and giving up are both accepted
      cov.count("fault.ref_race_timeout");
      sawFail = true;
      sync.fail(now);   // the answer was visibly ready and was passed over: no taking back
    } else if (readyBefore) {
      // the answer arrived in time (possibly seen late because loop() was called late): it is a
      // valid, not-late response and must be consumed
      sync.unread++;
      if (sync.unread > 2) {
        v.fail("c14-unread", fmt("t=%lld ms: a response has been ready (in time) for %d loop() calls "
            "and was not consumed", (long long)now, sync.unread), opIndex);
      }
    }
  }
  if (both && !sentFirst) onSend();   // the old answer was read first, then a new request went out
  prevLoopT = now;
}

bool ClockDevice::exec(const std::vector<std::string>& toks, int opIndex, Verdict& v, Coverage& cov) {
  if (toks.empty()) return false;
  const std::string& op = toks[0];
  if (!(op == "ADV" || op == "ADVDL" || op == "SET" || op == "GET" || op == "LOOP" || op == "SETUP"
      || op == "REBOOT" || op == "RTC" || op == "DRAIN" || op == "FORCE")) return false;
  if (!built) build();
  cov.count("ops");

  if (op == "ADV") {
    advance(tokInt(toks, 1, 0), cov);
  } else if (op == "ADVDL") {
    int64_t j = tokInt(toks, 1, 0);
    int64_t dl;
    if (opts.armC14 && cfg.ref != 0) dl = sync.nextDeadline(t, ref.outstanding ? ref.readyAt : SimRefClock::kNever);
    else dl = t + 1000 - ((t - carryAtSet) % 1000 + 1000) % 1000;  // next whole-second boundary since the last set
    int64_t target = dl + j;
    if (target > t + 70000000) target = t + 70000000;
    advance(target > t ? target - t : 0, cov);
  } else if (op == "SET") {
    acetime_t val = (acetime_t)tokInt(toks, 1, 0);
    doSet(val, opIndex, v, cov, "SET");
    primary->setNow(val);
    if (control) control->setNow(val);
    if (opts.armC13 && primary->isInit() != keep.isSet()) {
      v.fail("c13-uninit", fmt("after setNow(%ld): isInit()=%d, model says %d", (long)val,
          primary->isInit() ? 1 : 0, keep.isSet() ? 1 : 0), opIndex);
    }
  } else if (op == "SETUP") {
    ace_time::clock::Clock* b = cfg.ref == 2 ? (ace_time::clock::Clock*)&ref : (cfg.bak ? (ace_time::clock::Clock*)&rtc : nullptr);
    if (b) {
      acetime_t val = b->getNow();
      doSet(val, opIndex, v, cov, "SETUP");
      primary->setup();
      if (control) control->setNow(val);
      cov.count("probe.setup_from_backup");
    } else {
      primary->setup();
    }
  } else if (op == "FORCE") {
    // forceSync(): the statement says nothing about it, so nothing is asserted about the call itself - it is a
    // perturbation of the schedule (a blocking read of the reference in the middle of an asynchronous exchange).
    // Whatever the clock shows afterwards is given to the control as well; everything the statement says about
    // loop() must go on holding. (Without a reference clock forceSync() dereferences a null pointer: not exercised.)
    if (!opts.armC14 || cfg.ref == 0) return true;
    primary->forceSync();
    acetime_t shown = primary->getNow();
    if (control) { control->setNow(shown); (void)control->getNow(); }
    lastPollT = t;
    cov.count("fault.force_sync");
  } else if (op == "RTC") {
    rtc.ace_time::testing::FakeClock::setNow((acetime_t)tokInt(toks, 1, 0));
  } else if (op == "REBOOT") {
    boot = (uint64_t)kvInt(toks, "boot", (long long)boot);
    cov.count("fault.reboot");
    build();
  } else if (op == "GET" || op == "LOOP") {
    // wrap / gap accounting (between consecutive polls)
    int64_t gap = t - lastPollT;
    if (opts.armC14 && op == "LOOP") noteLoopGap();
    uint64_t c0 = boot + (uint64_t)lastPollT, c1 = boot + (uint64_t)t;
    bool x16 = (c0 >> 16) != (c1 >> 16), x32 = (c0 >> 32) != (c1 >> 32);
    if (x16) cov.count("fault.wrap16");
    if (x32) cov.count("fault.wrap32");
    if (opts.armC13 && keep.isSet()) {
      int64_t carry = ((lastPollT - carryAtSet) % 1000 + 1000) % 1000;
      if (gap >= 1000 && carry != 0 && gap <= KeepModel::kMaxGap) sawCarryGap = true;
      cov.cell("c13", fmt("p%d|g%d|c%d|%d%d", (int)(((boot + (uint64_t)carryAtSet) % 1000) / 100),
          gapBucket(gap), (int)(carry / 100), x16 ? 1 : 0, x32 ? 1 : 0));
      cov.cell("c13.phase16", fmt("%u", (unsigned)((boot + (uint64_t)carryAtSet) & 0xffff) >> 6));
    }
    if (op == "GET") {
      if (opts.armC13) {
        bool willStall = false;
        { KeepModel tmp = keep; willStall = tmp.stallTest(t); }
        if (willStall) cov.count("fault.stall");
        acetime_t r = primary->getNow();
        std::string msg;
        std::string cls = keep.onRead(t, r, primary->isInit(), msg);
        if (!cls.empty()) v.fail(cls, msg, opIndex);
        cov.count("c13.reads");
        if (!keep.anySuspended() && keep.isSet()) cov.count("c13.exact_checks");
      } else {
        probe(opIndex, v, "GET");
      }
    } else {
      doLoop(opIndex, v, cov);
    }
    lastPollT = t;
  } else if (op == "DRAIN") {
    // Faults stop. Keep calling loop(), jumping over idle periods along the model's own
    // deadlines, until a valid response has been applied (rule 5, bounded liveness).
    if (!opts.armC14 || cfg.ref == 0) return true;
    ref.faultsStopped = true;
    const uint64_t target = sync.successes + 1;
    const int64_t t0 = t;
    // budget: outstanding request may still have to time out, then the longest admissible
    // period, then the final request's latency (10 ms); counted in loop() calls, not wall time
    int calls = 0;
    // steps of at most 60 s, and never one that would stretch the gap since the previous loop() call beyond 64,536 ms,
    // so that the drain itself is polled time; the budget in calls follows from that
    const int budget = (int)((sync.maxPeriodMs() + cfg.tmo) / 60000) + 60;
    // what had gone by since the previous loop() call belongs to the time before the faults stopped
    const int64_t pending = t - lastLoopT;
    const int64_t polled0 = sync.polled + (pending >= 0 && pending <= KeepModel::kMaxGap ? pending : 0);
    int idleProbes = 0;
    uint64_t lastRequests = sync.requests, lastFailures = sync.failures;
    while (sync.successes < target && calls < budget && !v.violated) {
      int64_t dl = sync.nextDeadline(t, ref.outstanding ? ref.readyAt : SimRefClock::kNever);
      if (sync.requests != lastRequests || sync.failures != lastFailures) { idleProbes = 0; lastRequests = sync.requests; lastFailures = sync.failures; }
      int64_t step = dl - t;
      // idle and past the instant at which the shipped schedule sends: first give the machine a handful of calls
      // one millisecond apart (the shipped one sends in the second), and only then jump towards the bound
      if (sync.phase == SyncModel::IDLE && t > sync.dueExpect + 2 && idleProbes < kMaxIdleCallsPastDeadline + 2) { step = 1; idleProbes++; }
      if (step > 60000) step = 60000;
      int64_t room = KeepModel::kMaxGap - (t - lastLoopT);
      if (step > room) step = room;
      if (step < 1) step = 1;   // the deadline is now or past (or the pending gap is over-long already): one millisecond
      advance(step, cov);
      noteLoopGap();
      doLoop(opIndex, v, cov);
      lastPollT = t;
      calls++;
    }
    cov.count("c14.drains");
    if (!v.violated && sync.successes < target) {
      v.fail("c14-liveness-final", fmt("faults stopped at t=%lld ms; %d further loop() calls placed at "
          "the model's deadlines over %lld simulated ms produced no successful sync",
          (long long)t0, calls, (long long)(t - t0)), opIndex);
    }
    // measured, like every liveness bound here, in polled time (+1 s for a gap that was over-long before the drain began)
    // (the drain itself calls loop() up to 60 s apart: a machine that notices the time-out, and later the end of its
    // wait, only at the call AFTER the instant is up to one such step late each time)
    int64_t bound = sync.maxPeriodMs() + cfg.tmo + 2000 + 40 + 2 * 60000;
    if (!v.violated && sync.polled - polled0 > bound) {
      v.fail("c14-liveness-final", fmt("successful sync only %lld ms of polled time after faults stopped; bound is %lld",
          (long long)(sync.polled - polled0), (long long)bound), opIndex);
    }
  }
  return true;
}

void ClockDevice::finish(Coverage& cov) {
  if (opts.armC13 && keep.everStalled) cov.count("runs_with_stall");
}

// ---------------------------------------------------------------------------
// Exhaustive sweep: every start phase m0 mod 65536 in [from, from+count) x every poll gap
// 1..64536 ms, for two counter bases (no 32-bit wrap / wrap inside the gap). One set, one gap,
// one reading: T + floor(g/1000). Prints the first disagreement as an ordinary trace.
int sweepClockKeep(uint32_t phaseFrom, uint32_t phaseCount) {
  ace_time::testing::FakeMillis fm;
  static const uint64_t bases[2] = { 0x00000000ULL, 0xFFFF0000ULL };
  const acetime_t T = 600000000;
  unsigned long long pairs = 0;
  for (int b = 0; b < 2; b++) {
    for (uint32_t p = phaseFrom; p < phaseFrom + phaseCount && p < 65536; p++) {
      for (uint32_t g = 1; g <= 64536; g++) {
        ace_time::testing::TestableSystemClockLoop clk(nullptr, nullptr, &fm);
        uint64_t m0 = bases[b] + p;
        fm.millis((sim_ulong_t)(uint32_t)m0);
        clk.setNow(T);
        fm.millis((sim_ulong_t)(uint32_t)(m0 + g));
        acetime_t r = clk.getNow();
        pairs++;
        if (r != (acetime_t)(T + g / 1000)) {
          printf("SWEEPVIOL boot=%llu gap=%u got=%ld want=%ld\n", (unsigned long long)m0, g, (long)r, (long)(T + g / 1000));
          printf("SWEEP pairs=%llu\n", pairs);
          return 1;
        }
      }
    }
  }
  // Second family: a carried sub-second remainder. Set at phase p, one poll r ms later (r = 0..999, so the clock
  // carries remainder r), then one gap g = 1..64536 and a reading: T + floor((r + g)/1000). Sixteen phases per
  // chunk position (the catch-up arithmetic is phase-independent except through the 16-bit wrap, which the r and g
  // ranges sweep across anyway); only every 4th chunk takes part, to keep the sweep within a few minutes.
  if ((phaseFrom / 256) % 4 == 0) {
    for (uint32_t pi = 0; pi < 4; pi++) {
      uint64_t m0 = 0xFFFF0000ULL + phaseFrom + pi * 61;
      for (uint32_t r = 0; r < 1000; r++) {
        for (uint32_t g = 1; g <= 64536; g++) {
          ace_time::testing::TestableSystemClockLoop clk(nullptr, nullptr, &fm);
          fm.millis((sim_ulong_t)(uint32_t)m0);
          clk.setNow(T);
          fm.millis((sim_ulong_t)(uint32_t)(m0 + r));
          acetime_t r1 = clk.getNow();
          fm.millis((sim_ulong_t)(uint32_t)(m0 + r + g));
          acetime_t r2 = clk.getNow();
          pairs++;
          if (r1 != T || r2 != (acetime_t)(T + (r + g) / 1000)) {
            printf("SWEEPVIOL2 boot=%llu rem=%u gap=%u got=%ld want=%ld\n", (unsigned long long)m0, r, g, (long)r2,
                (long)(T + (r + g) / 1000));
            printf("SWEEP pairs=%llu\n", pairs);
            return 1;
          }
        }
      }
    }
  }
  printf("SWEEP pairs=%llu\n", pairs);
  return 0;
}

// ---------------------------------------------------------------------------
// Bounded exhaustive enumeration for C14: every sequence of `depth` ops over a small alphabet of schedule steps,
// for every combination of outcomes of the first three requests, for several period configurations and the three
// reference / backup arrangements, each followed by the fault-free drain. Same executor, same model as the seeded
// search; this is the "all interleavings to a depth bound" family the property's quantifier names.
int enumClockSync(unsigned job, unsigned jobs, unsigned depth) {
  static const char* kOps[] = {"LOOP", "ADV 1", "ADV 400", "ADVDL -1", "ADVDL 0", "ADVDL 1", "SET 700000000"};
  static const char* kPlans[] = {"VALID lat=0 val=0", "VALID lat=400 val=2", "INVALID lat=400", "LOST"};
  static const char* kCfgs[] = {"sync=7 init=2 tmo=1000", "sync=3 init=1 tmo=400", "sync=60 init=5 tmo=0", "sync=5 init=10 tmo=2000"};
  static const char* kArr[] = {"ref=distinct bak=1", "ref=same bak=1", "ref=none bak=1"};
  const unsigned nOps = 7;
  if (depth < 1 || depth > 9) depth = 6;
  unsigned long long seqs = 1;
  for (unsigned i = 0; i < depth; i++) seqs *= nOps;
  unsigned long long traces = 0, idx = 0;
  for (unsigned pr = 0; pr < 2; pr++) for (unsigned c = 0; c < 4; c++) for (unsigned a = 0; a < 3; a++) for (unsigned p = 0; p < 64; p++, idx++) {
    if (idx % jobs != job) continue;
    if (a == 2 && p != 0) continue;   // no reference: the request outcomes do not matter
    if (a == 2 && pr != 0) continue;  // no reference: the primary is never probed around loop() anyway
    for (unsigned long long sidx = 0; sidx < seqs; sidx++) {
      Trace tr; tr.profile = "clock-sync";
      tr.lines.push_back(fmt("CFG CLOCK %s %s boot=4294960000 refbase=650000000 rtc=650000000 probe=%u", kCfgs[c], kArr[a], 1 - pr));
      for (unsigned k = 0; k < 3; k++) tr.lines.push_back(fmt("REF %u %s", k, kPlans[(p >> (2 * k)) & 3]));
      unsigned long long x = sidx;
      for (unsigned i = 0; i < depth; i++) { tr.lines.push_back(kOps[x % nOps]); x /= nOps; }
      tr.lines.push_back("DRAIN");
      tr.lines.push_back("GET");
      Verdict v; Coverage cov;
      ClockOpts o; o.armC14 = true;
      ClockDevice dev(o);
      for (size_t i = 0; i < tr.lines.size() && !v.violated; i++) {
        std::vector<std::string> toks = splitWs(tr.lines[i]);
        if (toks[0] == "CFG" || toks[0] == "REF") { dev.configure(toks); continue; }
        dev.exec(toks, (int)i, v, cov);
      }
      traces++;
      if (v.violated) {
        printf("ENUMVIOL class=%s msg=\"%s\"\n", v.vclass.c_str(), jsonEscape(v.message).c_str());
        printf("ENUMTRACE %s\n", jsonEscape(tr.text()).c_str());
        printf("ENUM traces=%llu\n", traces);
        return 1;
      }
    }
  }
  printf("ENUM traces=%llu\n", traces);
  return 0;
}

// ---------------------------------------------------------------------------
// Generators (pure functions of the seed).

static uint64_t drawBoot(Rng& rng) {
  switch (rng.below(6)) {
    case 0: return 0xffffffffULL - rng.below(300000);          // 2^32 boundary inside the run
    case 1: return 0x10000ULL * rng.below(65536) + 65535 - rng.below(3000);  // 2^16 boundary soon
    case 2: return rng.below(70000);
    default: return rng.below(0x100000000ULL);
  }
}

// the backup clock's value: any time, or (an RTC that lost power) the invalid sentinel
static int64_t drawRtcValue(Rng& rng);

static int64_t drawSetValue(Rng& rng) {
  // values right next to the invalid sentinel (INT32_MIN): legitimate times that an "is it the sentinel / is it
  // unchanged" test on an uninitialised or half-initialised clock may confuse with internal state
  if (rng.chance(1, 16)) return -2147483648LL + rng.range(1, 70);
  switch (rng.below(5)) {
    case 0: return (int64_t)rng.below(1000);
    case 1: return -(int64_t)rng.below(2000000000);
    case 2: return 2147483647LL - 20000000 - (int64_t)rng.below(1000);
    default: return (int64_t)rng.below(2000000000);
  }
}

static int64_t drawRtcValue(Rng& rng) {
  return rng.chance(1, 6) ? (int64_t)kInvalid : drawSetValue(rng);
}

// a new setting that stands in a special relation to the value the clock shows (about `cur`): +-1, +- a power
// of two, +- a multiple of 65536 s, +- an hour / a day (narrowing, sign and wrap slips in "is it unchanged?" tests)
static int64_t drawRelatedValue(Rng& rng, int64_t cur) {
  int64_t d;
  switch (rng.below(5)) {
    case 0: d = rng.range(1, 3); break;
    case 1: d = (int64_t)1 << rng.range(1, 30); break;
    case 2: d = 65536 * rng.range(1, 300); break;
    case 3: d = rng.chance(1, 2) ? 3600 : 86400; break;
    default: d = 32768 * rng.range(1, 5) + rng.range(-1, 1); break;
  }
  int64_t v = rng.chance(1, 2) ? cur + d : cur - d;
  if (v > 2147483647LL - 20000000) v = cur - d;
  if (v < -2147483647LL + 1000) v = cur + d;
  return v;
}

Trace genClockKeep(uint64_t seed) {
  Rng rng(seed);
  Trace tr; tr.profile = "clock-keep";
  uint64_t boot = drawBoot(rng);
  bool bak = rng.chance(1, 2);
  tr.lines.push_back(fmt("CFG CLOCK ref=none bak=%d boot=%llu testable=1 rtc=%lld", bak ? 1 : 0,
      (unsigned long long)boot, (long long)drawRtcValue(rng)));
  // drawn from a generator of its own, so that the traces of all other runs stay what they were
  {
    Rng r2(seed ^ 0x9e3779b97f4a7c15ULL);
    if (r2.chance(1, 5)) {
      // settings that arrive through the sync path: a distinct reference clock, answers of varying latency and
      // value; the periods are short so that several syncs fall into one run
      static const unsigned kS[] = {1, 2, 5, 30, 3600};
      unsigned sp = kS[r2.below(5)];
      // the reference's own time base; kept clear of INT32_MIN so that "true time - 5 s" is still a time
      int64_t refbase = drawSetValue(r2);
      if (refbase < -2147483548LL) refbase += 100;
      tr.lines.back() = fmt("CFG CLOCK ref=distinct syncset=1 sync=%u init=%u tmo=%u bak=%d boot=%llu testable=0 rtc=%lld refbase=%lld",
          sp, (unsigned)r2.range(1, 5), (unsigned)(r2.chance(1, 2) ? 1000 : r2.range(1, 65535)), bak ? 1 : 0,
          (unsigned long long)boot, (long long)drawRtcValue(r2), (long long)refbase);
      int nr = (int)r2.range(0, 12);
      for (int k = 0; k < nr; k++) {
        int ord = (int)r2.below(20);
        unsigned kk = r2.below(10);
        long long lat = r2.chance(1, 3) ? (long long)r2.range(0, 5) : (long long)r2.range(0, 3000);
        if (kk < 5) tr.lines.push_back(fmt("REF %d VALID lat=%lld val=%lld", ord, lat, (long long)r2.range(-5, 5)));
        else if (kk < 7) tr.lines.push_back(fmt("REF %d ABS lat=%lld val=%lld", ord, lat, (long long)drawSetValue(r2)));
        else if (kk < 8) tr.lines.push_back(fmt("REF %d SAME lat=%lld", ord, lat));
        else if (kk < 9) tr.lines.push_back(fmt("REF %d INVALID lat=%lld", ord, lat));
        else tr.lines.push_back(fmt("REF %d LOST", ord));
      }
    }
  }
  // swarm: which gap kinds / faults this run uses
  bool faultFree = rng.chance(3, 10);
  bool allowStall = !faultFree && rng.chance(1, 2);
  bool allowSame = !faultFree && rng.chance(2, 3);
  bool allowSentinel = rng.chance(1, 2);
  unsigned wSmall = 1 + rng.below(6), wNearSec = 1 + rng.below(6), wUniform = 1 + rng.below(6),
           wMax = rng.below(3), wBoundary = 1 + rng.below(6), wStall = allowStall ? 1 + rng.below(2) : 0;
  unsigned wTot = wSmall + wNearSec + wUniform + wMax + wBoundary + wStall;
  int n = (int)rng.range(5, rng.chance(1, 4) ? 400 : 60);
  int64_t cur = drawSetValue(rng);   // generator's rough idea of the clock value
  int64_t sinceSet = 0;
  bool isSet = false;
  if (rng.chance(1, 8)) tr.lines.push_back("GET");   // reading before any set
  for (int i = 0; i < n; i++) {
    unsigned r = rng.below(100);
    if (!isSet && r < 60) r = 95;  // set early most of the time
    if (r < 45) {
      // advance then poll
      unsigned w = rng.below(wTot);
      int64_t d;
      if (w < wSmall) d = rng.range(1, 20);
      else if ((w -= wSmall) < wNearSec) d = rng.range(980, 1020);
      else if ((w -= wNearSec) < wUniform) d = rng.range(1, 64536);
      else if ((w -= wUniform) < wMax) d = 64536;
      else if ((w -= wMax) < wBoundary) d = -1;  // to the next whole-second boundary +/- 1
      else d = rng.range(64537, 200000);
      if (d < 0) tr.lines.push_back(fmt("ADVDL %d", (int)rng.range(-1, 1)));
      else tr.lines.push_back(fmt("ADV %lld", (long long)d));
      sinceSet += d < 0 ? 500 : d;
      tr.lines.push_back(rng.chance(2, 3) ? "GET" : "LOOP");
    } else if (r < 70) {
      tr.lines.push_back("GET");
    } else if (r < 80) {
      tr.lines.push_back("LOOP");
    } else if (r < 84) {
      tr.lines.push_back(fmt("ADV %lld", (long long)rng.range(0, 3000)));
      sinceSet += 1500;
    } else if (r < 97) {
      int64_t v;
      unsigned k = rng.below(10);
      if (allowSentinel && k == 0) v = kInvalid;
      else if (allowSame && k < 4 && isSet) {
        // the value the clock shows now, or showed at the last poll, give or take
        v = cur + sinceSet / 1000 + rng.range(-1, 1);
        if (rng.chance(1, 2)) v = cur + rng.range(0, 1);
      } else if (isSet && k >= 8) v = drawRelatedValue(rng, cur + sinceSet / 1000);
      else v = drawSetValue(rng);
      if (allowSame && isSet && rng.chance(1, 3)) {
        // bias: a long un-polled gap with a non-zero sub-second phase right before the set
        int64_t d = rng.range(1001, 64000);
        tr.lines.push_back(fmt("ADV %lld", (long long)d));
        sinceSet += d;
        if (k >= 1 && k < 4) v = cur + (rng.chance(1, 2) ? 0 : sinceSet / 1000);
      }
      tr.lines.push_back(fmt("SET %lld", (long long)v));
      if (v != kInvalid) { cur = v; sinceSet = 0; isSet = true; }
      if (rng.chance(1, 2)) tr.lines.push_back("GET");
    } else if (r < 98) {
      tr.lines.push_back(fmt("RTC %lld", (long long)drawRtcValue(rng)));
    } else if (r < 99) {
      tr.lines.push_back("SETUP");
      if (rng.chance(1, 4)) tr.lines.push_back("SETUP");
      if (bak) { isSet = true; sinceSet = 0; }
    } else {
      tr.lines.push_back(fmt("REBOOT boot=%llu", (unsigned long long)drawBoot(rng)));
      isSet = false;
      if (rng.chance(1, 2)) tr.lines.push_back("GET");
      if (rng.chance(2, 3)) tr.lines.push_back("SETUP");
    }
  }
  tr.lines.push_back("GET");
  return tr;
}

Trace genClockSync(uint64_t seed) {
  Rng rng(seed);
  Trace tr; tr.profile = "clock-sync";
  static const uint32_t kSync[] = {1, 2, 3, 5, 7, 60, 61, 3600, 43200, 65535};
  static const uint32_t kInit[] = {1, 2, 3, 5, 10, 0 /* > sync */};
  static const uint32_t kTmo[] = {0, 1, 2, 1000, 5000, 60000, 65535};
  uint32_t syncP, initP, tmo;
  bool testable = false;
  if (rng.chance(3, 20)) { syncP = 3600; initP = 5; tmo = 1000; testable = true; }
  else {
    syncP = kSync[rng.below(10)];
    initP = kInit[rng.below(6)];
    if (initP == 0) initP = syncP >= 65530 ? 65535 : syncP + 1 + (uint32_t)rng.below(5);
    tmo = kTmo[rng.below(7)];
  }
  unsigned ra = rng.below(10);
  const char* refArr = ra < 1 ? "none" : (ra < 7 ? "distinct" : "same");
  bool bak = rng.chance(4, 5);
  uint64_t boot = drawBoot(rng);
  const int64_t refBase0 = 600000000 + (int64_t)rng.below(100000000);
  tr.lines.push_back(fmt("CFG CLOCK sync=%u init=%u tmo=%u ref=%s bak=%d boot=%llu testable=%d stats=%d "
      "refbase=%lld rtc=%lld probe=%d", syncP, initP, tmo, refArr, bak ? 1 : 0, (unsigned long long)boot,
      testable ? 1 : 0, rng.chance(1, 4) ? 1 : 0, (long long)refBase0,
      (long long)drawRtcValue(rng), rng.chance(1, 3) ? 0 : 1));

  // swarm: enabled fault kinds and rates
  bool faultFree = rng.chance(3, 10);
  unsigned wValid = 2 + rng.below(8);
  unsigned wInvalid = faultFree ? 0 : rng.below(5), wLost = faultFree ? 0 : rng.below(5),
           wLate = faultFree ? 0 : rng.below(4), wJump = faultFree ? 0 : rng.below(3),
           wSame = rng.below(3), wInstant = rng.below(3), wStale = faultFree ? 0 : rng.below(3),
           wRace = faultFree ? 0 : rng.below(3);
  if (rng.chance(1, 6) && !faultFree) { wValid = 0; if (wInvalid + wLost + wLate == 0) wLost = 1; }  // long failure streaks
  unsigned wTot = wValid + wInvalid + wLost + wLate + wJump + wSame + wInstant + wStale + wRace;
  int nReq = 40;
  for (int k = 0; k < nReq; k++) {
    unsigned w = rng.below(wTot);
    if (w < wValid) tr.lines.push_back(fmt("REF %d VALID lat=%lld val=%lld", k,
        (long long)rng.range(1, tmo > 2 ? tmo - 1 : 1), (long long)rng.range(-3, 3)));
    else if ((w -= wValid) < wInvalid) tr.lines.push_back(fmt("REF %d INVALID lat=%lld", k,
        (long long)rng.range(0, tmo > 2 ? tmo - 1 : 1)));
    else if ((w -= wInvalid) < wLost) tr.lines.push_back(fmt("REF %d LOST", k));
    else if ((w -= wLost) < wLate) tr.lines.push_back(fmt("REF %d VALID lat=%lld val=%lld", k,
        (long long)(tmo + rng.range(1, 3000)), (long long)rng.range(-3, 3)));
    else if ((w -= wLate) < wJump) tr.lines.push_back(fmt("REF %d ABS lat=%lld val=%lld", k,
        (long long)rng.range(0, 50), (long long)(rng.chance(1, 2) ? drawRelatedValue(rng, refBase0) : drawSetValue(rng))));
    else if ((w -= wJump) < wSame) tr.lines.push_back(fmt("REF %d SAME lat=%lld", k, (long long)rng.range(0, 50)));
    else if ((w -= wSame) < wInstant) tr.lines.push_back(fmt("REF %d VALID lat=0 val=%lld", k, (long long)rng.range(-1, 1)));
    else if ((w -= wInstant) < wStale) tr.lines.push_back(fmt("REF %d STALE", k));
    else tr.lines.push_back(fmt("REF %d VALID lat=%lld val=0", k, (long long)(tmo + rng.range(-1, 1) < 0 ? 0 : tmo + rng.range(-1, 1))));
  }

  bool dense = rng.chance(1, 2);
  int n = (int)rng.range(5, rng.chance(1, 3) ? 400 : 80);
  if (rng.chance(2, 3)) tr.lines.push_back("SETUP");
  for (int i = 0; i < n; i++) {
    unsigned r = rng.below(100);
    if (r < 40) tr.lines.push_back("LOOP");
    else if (r < 58) {
      tr.lines.push_back(fmt("ADVDL %d", (int)rng.range(-2, 2)));
      if (rng.chance(3, 4)) tr.lines.push_back("LOOP");
    }
    else if (r < 78) tr.lines.push_back(fmt("ADV %lld", (long long)(dense ? rng.range(1, 20)
        : (rng.chance(1, 2) ? rng.range(1, 1500) : rng.range(1000, 40000)))));
    else if (r < 82) tr.lines.push_back(fmt("ADV %lld", (long long)rng.range(20000, 70000)));
    else if (r < 91) tr.lines.push_back("GET");
    else if (r < 96) tr.lines.push_back(fmt("SET %lld", (long long)(rng.chance(1, 8) ? (int64_t)kInvalid
        : (rng.chance(1, 4) ? drawRelatedValue(rng, refBase0) : drawSetValue(rng)))));
    else if (r < 97) {
      if (rng.chance(1, 3)) tr.lines.push_back("FORCE");
      else { tr.lines.push_back("SETUP"); if (rng.chance(1, 3)) tr.lines.push_back("SETUP"); }
    }
    else if (r < 98) tr.lines.push_back(fmt("RTC %lld", (long long)drawRtcValue(rng)));
    else if (r < 99) {
      tr.lines.push_back(fmt("REBOOT boot=%llu", (unsigned long long)drawBoot(rng)));
      if (rng.chance(2, 3)) tr.lines.push_back("SETUP");
    } else tr.lines.push_back("LOOP");
  }
  tr.lines.push_back("DRAIN");
  tr.lines.push_back("GET");
  return tr;
}

}  // namespace sim
