#include "tz.h"
namespace sim {
Trace genTz(const std::string& profile, uint64_t) { Trace t; t.profile = profile; return t; }
bool execTz(const Trace&, Verdict&, Coverage&, bool&, Bitmap*) { return true; }
}
