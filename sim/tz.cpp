// Time-zone part of the simulated device: clients (TimeZone values of every kind) over shared
// processors and zone managers with evicting caches, a durable TimeZoneData store, reboots.
// Oracles: C08 (fresh-processor comparison, A.3), C16 (catalogue), C09 M2/M3 (error persistence,
// pool monitors). Only the oracle of the profile's own property is armed.
#include "tz.h"
#include "clock.h"
#include <AceTime.h>
#include <new>
#include <unistd.h>
#include <signal.h>
#include <sys/wait.h>

#if ACE_TIME_VERIF_HOOKS
extern "C" { unsigned long ace_time_verif_basic_dropped = 0; }
#else
static unsigned long ace_time_verif_basic_dropped = 0;
#endif

namespace sim {

using namespace ace_time;

static const int kMaxClients = 8;
static const int kMaxProcs = 3;
static const int kMaxStore = 4;

enum Kind { K_EMPTY = 0, K_ERROR, K_MANUAL, K_BDIRECT, K_XDIRECT, K_BMGR, K_XMGR };
static const char* kindName(Kind k) {
  switch (k) {
    case K_ERROR: return "error"; case K_MANUAL: return "manual"; case K_BDIRECT: return "bdirect";
    case K_XDIRECT: return "xdirect"; case K_BMGR: return "bmgr"; case K_XMGR: return "xmgr";
    default: return "empty";
  }
}
static bool isBasic(Kind k) { return k == K_BDIRECT || k == K_BMGR; }
static bool isExt(Kind k) { return k == K_XDIRECT || k == K_XMGR; }
static bool isZone(Kind k) { return isBasic(k) || isExt(k); }

struct Desc {   // the simulator's own catalogue entry for a client / a saved form
  Kind kind = K_EMPTY;
  const void* zi = nullptr;
  int zone = -1;          // index into the shipped registry of its database
  uint32_t zoneId = 0;
  int16_t stdMin = 0, dstMin = 0;
};
static bool sumFits(int a, int b) { int s = a + b; return s >= -32768 && s <= 32767; }
static bool sameDesc(const Desc& a, const Desc& b) {
  if (a.kind != b.kind) return false;
  if (a.kind == K_ERROR) return true;
  if (a.kind == K_MANUAL) return a.stdMin == b.stdMin && a.dstMin == b.dstMin;
  return a.zi == b.zi;
}

static const char* zoneName(Kind k, const void* zi) {
  if (!zi) return "?";
  return isBasic(k) ? basic::ZoneInfoBroker((const basic::ZoneInfo*)zi).name()
                    : extended::ZoneInfoBroker((const extended::ZoneInfo*)zi).name();
}
static uint32_t zoneIdOf(bool ext, const void* zi) {
  return ext ? extended::ZoneInfoBroker((const extended::ZoneInfo*)zi).zoneId()
             : basic::ZoneInfoBroker((const basic::ZoneInfo*)zi).zoneId();
}

// --- civil date helpers (simulator's own; used for coverage classes and argument classes only)
static int yearOfEpoch(int64_t e) {
  int64_t days = e >= 0 ? e / 86400 : -((-e + 86399) / 86400);
  // days since 2000-01-01 -> civil year (Howard Hinnant's civil_from_days)
  int64_t d = days + 10957 + 719468;  // days since 0000-03-01 (1970-01-01 is 719468; 2000-01-01 is +10957)
  int64_t era = (d >= 0 ? d : d - 146096) / 146097;
  int64_t doe = d - era * 146097;
  int64_t yoe = (doe - doe / 1460 + doe / 36524 - doe / 146096) / 365;
  int64_t y = yoe + era * 400;
  int64_t doy = doe - (365 * yoe + yoe / 4 - yoe / 100);
  int64_t mp = (5 * doy + 2) / 153;
  int64_t m = mp + (mp < 10 ? 3 : -9);
  return (int)(y + (m <= 2));
}
static void civilFromEpoch(int64_t e, int& y, int& mo, int& d, int& h, int& mi, int& s) {
  int64_t days = e >= 0 ? e / 86400 : -((-e + 86399) / 86400);
  int64_t sec = e - days * 86400;
  h = (int)(sec / 3600); mi = (int)(sec / 60 % 60); s = (int)(sec % 60);
  int64_t z = days + 10957 + 719468;
  int64_t era = (z >= 0 ? z : z - 146096) / 146097;
  int64_t doe = z - era * 146097;
  int64_t yoe = (doe - doe / 1460 + doe / 36524 - doe / 146096) / 365;
  int64_t yy = yoe + era * 400;
  int64_t doy = doe - (365 * yoe + yoe / 4 - yoe / 100);
  int64_t mp = (5 * doy + 2) / 153;
  d = (int)(doy - (153 * mp + 2) / 5 + 1);
  mo = (int)(mp < 10 ? mp + 3 : mp - 9);
  y = (int)(yy + (mo <= 2));
}
static int64_t epochOfYearStart(int y) {  // seconds from 2000-01-01 to y-01-01 (UTC)
  int64_t yy = y - 1;
  int64_t era = (yy >= 0 ? yy : yy - 399) / 400;
  int64_t yoe = yy - era * 400;
  int64_t doy = (153 * (1 + 9) + 2) / 5;  // Jan 1: month index 10 in the March-based year
  int64_t doe = yoe * 365 + yoe / 4 - yoe / 100 + doy;
  int64_t days = era * 146097 + doe - 719468 - 10957;
  return days * 86400;
}

// --- answers
struct Ans {
  bool err = false;
  long v[8];
  int n = 0;
  std::string s;
  Ans() { for (int i = 0; i < 8; i++) v[i] = 0; }
  std::string show() const {
    if (err) return "<error>";
    std::string o = s.empty() && n == 0 ? "\"\"" : (s.empty() ? "" : "\"" + s + "\"");
    for (int i = 0; i < n; i++) o += fmt("%s%ld", (i || !s.empty()) ? "," : "", v[i]);
    return o;
  }
};
static bool equalAns(const Ans& a, const Ans& b) {
  if (a.err && b.err) return true;   // two error values are equal whatever their payload
  if (a.err != b.err || a.n != b.n || a.s != b.s) return false;
  for (int i = 0; i < a.n; i++) if (a.v[i] != b.v[i]) return false;
  return true;
}

static uint64_t answerHash(const std::string& a) {
  uint64_t h = 1469598103934665603ULL;
  for (size_t i = 0; i < a.size(); i++) { h ^= (uint8_t)a[i]; h *= 1099511628211ULL; }
  return h;
}

struct Query {
  std::string kind;    // utc delta abbrev odt zdt zdc print prints zid
  int64_t e = 0;       // epoch seconds
  int y = 2000, mo = 1, d = 1, h = 0, mi = 0, s = 0;
  bool byComponents() const { return kind == "odt" || kind == "zdc" || kind == "zopc"; }
  bool byEpoch() const { return kind == "utc" || kind == "delta" || kind == "abbrev" || kind == "zdt" || kind == "zops"; }
  int year() const { return byComponents() ? y : yearOfEpoch(e); }
};

template <class DT> static void fillFields(Ans& a, const DT& o) {
  a.v[0] = o.year(); a.v[1] = o.month(); a.v[2] = o.day(); a.v[3] = o.hour();
  a.v[4] = o.minute(); a.v[5] = o.second(); a.v[6] = o.timeOffset().toMinutes();
  a.n = 7;
}

// Leaves a chosen byte pattern in the stack area that the next call will use: a result object that the code under test
// returns without having written it is then made of these bytes. 0x01 and 0x05 make valid-looking dates and times
// (a pattern of zeros would look like an error value and hide the omission by luck).
__attribute__((noinline)) static void scribbleStack(uint8_t b) {
  volatile uint8_t buf[12288];
  for (size_t i = 0; i < sizeof buf; i++) buf[i] = b;
}

static Ans ask(const TimeZone& tz, const Query& q) {
  Ans a;
  if (q.kind == "utc" || q.kind == "delta") {
    TimeOffset o = q.kind == "utc" ? tz.getUtcOffset((acetime_t)q.e) : tz.getDeltaOffset((acetime_t)q.e);
    a.err = o.isError(); a.v[0] = o.toMinutes(); a.n = 1;
  } else if (q.kind == "abbrev") {
    const char* p = tz.getAbbrev((acetime_t)q.e);
    a.s = p ? p : "(null)";   // copied at once, as the user guide requires
  } else if (q.kind == "odt") {
    LocalDateTime ldt = LocalDateTime::forComponents((int16_t)q.y, (uint8_t)q.mo, (uint8_t)q.d,
        (uint8_t)q.h, (uint8_t)q.mi, (uint8_t)q.s);
    OffsetDateTime o = tz.getOffsetDateTime(ldt);
    a.err = o.isError();
    if (!a.err) fillFields(a, o);
  } else if (q.kind == "zdc" || q.kind == "zdt") {
    ZonedDateTime z = q.kind == "zdc"
        ? ZonedDateTime::forComponents((int16_t)q.y, (uint8_t)q.mo, (uint8_t)q.d, (uint8_t)q.h, (uint8_t)q.mi,
              (uint8_t)q.s, tz)
        : ZonedDateTime::forEpochSeconds((acetime_t)q.e, tz);
    a.err = z.isError();
    if (!a.err) fillFields(a, z);
  } else if (q.kind == "zops" || q.kind == "zopc") {
    // device profile: the further public operations on a resolved date-time (no oracle beyond
    // "no crash / no UB / errors stay errors"; C08 compares them with a fresh zone like any answer)
    ZonedDateTime z = q.kind == "zopc"
        ? ZonedDateTime::forComponents((int16_t)q.y, (uint8_t)q.mo, (uint8_t)q.d, (uint8_t)q.h, (uint8_t)q.mi,
              (uint8_t)q.s, tz)
        : ZonedDateTime::forEpochSeconds((acetime_t)q.e, tz);
    a.err = z.isError();
    StrPrint sp;
    z.printTo(sp);
    a.s = sp.c_str();
    if (!a.err) {
      fillFields(a, z);
      // date -> epoch conversions whose result is not representable as acetime_t are not exercised (DESIGN
      // §10.2): decide that in 64-bit arithmetic from the fields, the offset included (a torn manual record
      // can carry an offset of several days)
      int64_t e64 = epochOfYearStart(z.year());
      {
        static const int cum[12] = {0, 31, 59, 90, 120, 151, 181, 212, 243, 273, 304, 334};
        int yy = z.year();
        bool leap = (yy % 4 == 0 && yy % 100 != 0) || yy % 400 == 0;
        int mo = z.month() >= 1 && z.month() <= 12 ? z.month() : 1;
        e64 += (int64_t)(cum[mo - 1] + ((leap && mo > 2) ? 1 : 0) + (z.day() - 1)) * 86400
            + z.hour() * 3600 + z.minute() * 60 + z.second() - (int64_t)z.timeOffset().toMinutes() * 60;
      }
      if (z.year() >= 1932 && z.year() <= 2067 && e64 > -2147483647LL + 2 * 86400 && e64 < 2147483647LL - 2 * 86400) {
        a.v[7] = z.toEpochSeconds();
        a.n = 8;
        ZonedDateTime u = z.convertToTimeZone(TimeZone::forUtc());
        StrPrint sp2;
        u.printTo(sp2);
        a.s += "|";
        a.s += sp2.c_str();
        a.s += fmt("|dow%d", (int)z.dayOfWeek());
        OffsetDateTime o = OffsetDateTime::forEpochSeconds(z.toEpochSeconds(), z.timeOffset());
        if (o.isError() || o.toEpochSeconds() != z.toEpochSeconds()) a.s += "|odt-roundtrip-differs";
      }
    }
  } else if (q.kind == "print" || q.kind == "prints") {
    StrPrint sp;
    if (q.kind == "print") tz.printTo(sp); else tz.printShortTo(sp);
    a.s = sp.c_str();
  } else if (q.kind == "zid") {
    a.v[0] = (long)tz.getZoneId(); a.n = 1;
  }
  return a;
}

// --- PARSE: a date-time line as it reaches the device over its serial console (the example apps set the clock and
// the zone that way), possibly cut short or garbled on the way. C09 only: no crash / no UB / no read past the
// terminator. The line is parsed three times: from a heap block of exactly strlen+1 bytes (ASan redzone right
// behind the terminator) and from two longer blocks whose bytes BEHIND the terminator differ; the results must be
// the same, whatever they are (a parser that runs past the terminator shows up without any sanitizer).
static std::string parseRepr(const std::string& kind, const char* s) {
  StrPrint sp;
  if (kind == "ld") { LocalDate d = LocalDate::forDateString(s); if (d.isError()) return "E"; d.printTo(sp); }
  else if (kind == "lt") { LocalTime d = LocalTime::forTimeString(s); if (d.isError()) return "E"; d.printTo(sp); }
  else if (kind == "ldt") { LocalDateTime d = LocalDateTime::forDateString(s); if (d.isError()) return "E"; d.printTo(sp); }
  else if (kind == "odt") { OffsetDateTime d = OffsetDateTime::forDateString(s); if (d.isError()) return "E"; d.printTo(sp); }
  else if (kind == "zdt") { ZonedDateTime d = ZonedDateTime::forDateString(s); if (d.isError()) return "E"; d.printTo(sp); }
  else if (kind == "off") { TimeOffset d = TimeOffset::forOffsetString(s); if (d.isError()) return "E"; d.printTo(sp); }
  else return "?";
  return std::string("V ") + sp.c_str();
}

static std::string unhex(const std::string& h) {
  std::string o;
  for (size_t i = 0; i + 1 < h.size(); i += 2) {
    auto nib = [](char c) -> int { return c >= '0' && c <= '9' ? c - '0' : (c >= 'a' && c <= 'f' ? c - 'a' + 10 : (c >= 'A' && c <= 'F' ? c - 'A' + 10 : 0)); };
    char c = (char)(nib(h[i]) * 16 + nib(h[i + 1]));
    if (c == 0) break;   // a line ends at its first NUL
    o += c;
  }
  return o;
}

static void doParse(const std::string& kind, const std::string& line, int opIndex, Verdict& v, Coverage& cov) {
  const size_t n = line.size();
  std::string r[3];
  for (int k = 0; k < 3; k++) {
    const size_t extra = k == 0 ? 0 : 12;
    char* buf = (char*)malloc(n + 1 + extra);
    memcpy(buf, line.data(), n);
    buf[n] = 0;
    for (size_t i = 0; i < extra; i++) buf[n + 1 + i] = k == 1 ? '0' : (char)('1' + (i * 7 + 3) % 9);
    r[k] = parseRepr(kind, buf);
    free(buf);
  }
  cov.count("c09.lines_parsed");
  if (r[0] == "E") cov.count("c09.lines_rejected");
  if (r[0] != r[1] || r[0] != r[2]) {
    v.fail("c09-parse-past-terminator", fmt("parsing the %zu-character line \"%s\" as %s gives %s, %s or %s depending on the bytes "
        "that follow its terminator", n, line.c_str(), kind.c_str(), r[0].c_str(), r[1].c_str(), r[2].c_str()), opIndex);
  }
}

// What an application can read off a ZonedDateTime it has kept: the printed form (date, time, offset, zone name), the
// fields, and - where the instant is representable - the epoch seconds and the same instant in UTC.
static std::string reprKept(const ZonedDateTime& z) {
  StrPrint sp;
  z.printTo(sp);
  std::string r = sp.c_str();
  if (z.isError()) return r + "|error";
  r += fmt("|%d-%d-%d %d:%d:%d %d", (int)z.year(), (int)z.month(), (int)z.day(), (int)z.hour(), (int)z.minute(),
      (int)z.second(), (int)z.timeOffset().toMinutes());
  if (z.year() >= 1932 && z.year() <= 2067) {
    r += fmt("|%ld", (long)z.toEpochSeconds());
    StrPrint sp2;
    z.convertToTimeZone(TimeZone::forUtc()).printTo(sp2);
    r += "|";
    r += sp2.c_str();
  }
  return r;
}

// --- poison-filled storage. Heap blocks of exactly the object's size, so that under ASan an access
// past the end of a processor / manager hits a redzone, filled with a seed-drawn byte before
// placement construction, so that nothing depends on what the allocator left behind.
struct Storage {
  unsigned char* mem = nullptr;
  size_t size = 0;
  Storage() {}
  ~Storage() { release(); }
  Storage(const Storage&) = delete;
  Storage& operator=(const Storage&) = delete;
  void release() { free(mem); mem = nullptr; size = 0; }
  unsigned char* fresh(size_t n, uint8_t poison) {
    release();
    mem = (unsigned char*)malloc(n);
    size = n;
    memset(mem, poison, n);
    return mem;
  }
};

struct ProcShadow {  // coverage bookkeeping only, never an oracle
  bool used = false;
  const void* zi = nullptr;
  int year = 0;
  bool ok = false;
  void reset() { used = false; zi = nullptr; year = 0; ok = false; }
};

template <class P> struct ProcSlot {
  Storage st;
  P* p = nullptr;
  ProcShadow sh;
  void construct(uint8_t poison) { p = new (st.fresh(sizeof(P), poison)) P(); sh.reset(); }
  void drop() { p = nullptr; sh.reset(); st.release(); }
};

struct MgrSlot {
  bool ext = false;
  int size = 0;
  ZoneManager* base = nullptr;
  Storage st;
  std::vector<const void*> registry;   // must outlive the manager
  // shadow of the round-robin cache (coverage bookkeeping only)
  const void* slots[4];
  ProcShadow slotSh[4];
  int cur = 0;
  void drop() { base = nullptr; size = 0; registry.clear(); st.release(); }
  void construct(bool isExt, int sz, uint8_t poison) {
    ext = isExt; size = sz; cur = 0;
    for (int i = 0; i < 4; i++) { slots[i] = nullptr; slotSh[i].reset(); }
    uint16_t n = (uint16_t)registry.size();
    if (ext) {
      const extended::ZoneInfo* const* r = (const extended::ZoneInfo* const*)(registry.empty() ? nullptr : &registry[0]);
      switch (sz) {
        case 1: base = new (st.fresh(sizeof(ExtendedZoneManager<1>), poison)) ExtendedZoneManager<1>(n, r); break;
        case 2: base = new (st.fresh(sizeof(ExtendedZoneManager<2>), poison)) ExtendedZoneManager<2>(n, r); break;
        case 3: base = new (st.fresh(sizeof(ExtendedZoneManager<3>), poison)) ExtendedZoneManager<3>(n, r); break;
        default: base = new (st.fresh(sizeof(ExtendedZoneManager<4>), poison)) ExtendedZoneManager<4>(n, r); size = 4; break;
      }
    } else {
      const basic::ZoneInfo* const* r = (const basic::ZoneInfo* const*)(registry.empty() ? nullptr : &registry[0]);
      switch (sz) {
        case 1: base = new (st.fresh(sizeof(BasicZoneManager<1>), poison)) BasicZoneManager<1>(n, r); break;
        case 2: base = new (st.fresh(sizeof(BasicZoneManager<2>), poison)) BasicZoneManager<2>(n, r); break;
        case 3: base = new (st.fresh(sizeof(BasicZoneManager<3>), poison)) BasicZoneManager<3>(n, r); break;
        default: base = new (st.fresh(sizeof(BasicZoneManager<4>), poison)) BasicZoneManager<4>(n, r); size = 4; break;
      }
    }
  }
  TimeZone createForZoneInfo(const void* zi) {
    if (ext) {
      const extended::ZoneInfo* z = (const extended::ZoneInfo*)zi;
      switch (size) {
        case 1: return static_cast<ExtendedZoneManager<1>*>(base)->createForZoneInfo(z);
        case 2: return static_cast<ExtendedZoneManager<2>*>(base)->createForZoneInfo(z);
        case 3: return static_cast<ExtendedZoneManager<3>*>(base)->createForZoneInfo(z);
        default: return static_cast<ExtendedZoneManager<4>*>(base)->createForZoneInfo(z);
      }
    } else {
      const basic::ZoneInfo* z = (const basic::ZoneInfo*)zi;
      switch (size) {
        case 1: return static_cast<BasicZoneManager<1>*>(base)->createForZoneInfo(z);
        case 2: return static_cast<BasicZoneManager<2>*>(base)->createForZoneInfo(z);
        case 3: return static_cast<BasicZoneManager<3>*>(base)->createForZoneInfo(z);
        default: return static_cast<BasicZoneManager<4>*>(base)->createForZoneInfo(z);
      }
    }
  }
  // catalogue lookup by the simulator (not through the registrar)
  const void* findById(uint32_t id) const {
    for (size_t i = 0; i < registry.size(); i++) if (zoneIdOf(ext, registry[i]) == id) return registry[i];
    return nullptr;
  }
  // shadow cache: returns the shadow of the slot that serves zi; sets evicted
  ProcShadow& touch(const void* zi, bool& evicted, bool& rebind) {
    evicted = rebind = false;
    for (int i = 0; i < size; i++) if (slots[i] == zi) return slotSh[i];
    int i = cur;
    cur = (cur + 1) % size;
    if (slots[i] != nullptr) { evicted = true; rebind = true; }
    slots[i] = zi;
    bool wasUsed = slotSh[i].used;
    slotSh[i].reset();
    if (wasUsed) { slotSh[i].used = true; slotSh[i].zi = (const void*)1; }  // "other zone" marker
    return slotSh[i];
  }
};

struct Client {
  Desc d;
  TimeZone tz;
  int proc = -1;
  bool restored = false;   // came out of createForTimeZoneData()
  // a ZonedDateTime the application keeps (it holds its TimeZone by value) and looks at again later
  bool hasKept = false;
  ZonedDateTime kept;
  std::string keptRepr;
};

struct SavedForm {
  bool present = false;
  bool torn = false;   // a stored byte was flipped (fault `torn_store_byte`): the catalogue no longer knows the content
  uint8_t bytes[sizeof(TimeZoneData)];   // the object's bytes, as EEPROM.put() / CrcEeprom would store them
  Desc d;   // what the simulator knows was saved
};

struct TzOpts { bool armC08 = false, armC16 = false, armC09 = false; bool freshOnly = false; };

class TzDevice {
 public:
  explicit TzDevice(const TzOpts& o) : opts(o) {
    for (int i = 0; i < kMaxProcs; i++) { bproc[i].p = nullptr; xproc[i].p = nullptr; }
  }
  TzOpts opts;
  uint8_t poison = 0xA5;
  ProcSlot<BasicZoneProcessor> bproc[kMaxProcs];
  ProcSlot<ExtendedZoneProcessor> xproc[kMaxProcs];
  MgrSlot bmgr, xmgr;
  Client clients[kMaxClients];
  SavedForm store[kMaxStore];   // durable: survives REBOOT
  Query lastQ;
  char nameBuf[96];             // the device's one console line buffer (zone names typed by the user)
  bool sawNontrivial = false;
  std::vector<std::pair<int, uint64_t> > freshLog;   // (op index, hash of the fresh oracle's answer): pristine-process comparison
  unsigned questionStride = 1, questionCounter = 0, questionsChecked = 0;   // pristine side, batch mode: a sample of the questions
  bool decoyFirst = false;   // this run also exercises the decoy BEFORE the client's query (CFG TZ decoyfirst=1)
  std::map<std::string, std::pair<std::string, int> > freshSeen;   // C08: what a fresh zone answered to (zone, query, argument) earlier in this run
  void decoy(const Desc& d, const Query& q);
  std::map<std::string, int> errorSeen;   // C09 M2': (zone, query, argument) -> op index of an earlier error answer
  ClockDevice* clockDev = nullptr;

  void dropVolatile() {
    for (int i = 0; i < kMaxProcs; i++) { bproc[i].drop(); xproc[i].drop(); }
    bmgr.drop(); xmgr.drop();
    for (int i = 0; i < kMaxClients; i++) clients[i] = Client();
  }
  void dropClientsOf(Kind k) { for (int i = 0; i < kMaxClients; i++) if (clients[i].d.kind == k) clients[i] = Client(); }
  void dropClientsOfProc(Kind k, int p) {
    for (int i = 0; i < kMaxClients; i++) if (clients[i].d.kind == k && clients[i].proc == p) clients[i] = Client();
  }

  void exec(const std::vector<std::string>& t, int opIndex, Verdict& v, Coverage& cov, Bitmap* bm);
  void doQuery(int c, const Query& q, int opIndex, Verdict& v, Coverage& cov, Bitmap* bm);
  void checkPairs(int opIndex, Verdict& v, Coverage& cov);
  Ans fresh(const Desc& d, const Query& q, uint8_t pz);
  void buildRegistry(MgrSlot& m, const std::vector<std::string>& t);
};

static const void* shippedZone(bool ext, long idx) {
  if (ext) return (idx >= 0 && idx < zonedbx::kZoneRegistrySize) ? zonedbx::kZoneRegistry[idx] : nullptr;
  return (idx >= 0 && idx < zonedb::kZoneRegistrySize) ? zonedb::kZoneRegistry[idx] : nullptr;
}

void TzDevice::buildRegistry(MgrSlot& m, const std::vector<std::string>& t) {
  bool ext = m.ext;
  m.registry.clear();
  std::string reg = kvStr(t, "reg", "full");
  int full = ext ? zonedbx::kZoneRegistrySize : zonedb::kZoneRegistrySize;
  if (reg == "full") {
    for (int i = 0; i < full; i++) m.registry.push_back(shippedZone(ext, i));
    return;
  }
  // reg=sub seed=<s> n=<count> order=sorted|shuffled with=<i>,<j>,...
  Rng rng((uint64_t)kvInt(t, "seed", 1));
  int n = (int)kvInt(t, "n", 10);
  if (n > full) n = full;
  std::vector<int> idx;
  std::string with = kvStr(t, "with", "");
  for (size_t p = 0; p < with.size();) {
    size_t q = with.find(',', p);
    if (q == std::string::npos) q = with.size();
    long z = strtol(with.substr(p, q - p).c_str(), nullptr, 10);
    if (z >= 0 && z < full) idx.push_back((int)z);
    p = q + 1;
  }
  std::string without = kvStr(t, "without", "");
  std::set<int> banned;
  for (size_t p = 0; p < without.size();) {
    size_t q = without.find(',', p);
    if (q == std::string::npos) q = without.size();
    banned.insert((int)strtol(without.substr(p, q - p).c_str(), nullptr, 10));
    p = q + 1;
  }
  std::set<int> have(idx.begin(), idx.end());
  int guard = 0;
  while ((int)idx.size() < n && guard++ < 10000) {
    int z = (int)rng.below(full);
    if (have.count(z) || banned.count(z)) continue;
    have.insert(z); idx.push_back(z);
  }
  if (kvStr(t, "order", "sorted") == "sorted") {
    std::vector<int> s(have.begin(), have.end());   // shipped registries are sorted by name
    idx.swap(s);
  } else {
    for (size_t i = idx.size(); i > 1; i--) { size_t j = rng.below(i); std::swap(idx[i - 1], idx[j]); }
  }
  for (size_t i = 0; i < idx.size(); i++) m.registry.push_back(shippedZone(ext, idx[i]));
}

// State that is shared by ALL processors (a function-local static, a class static, a global scratch buffer) is
// invisible to a comparison of "client" against "fresh processor" made back to back: the fresh one would be asked
// right after the client and see the same shared state. So before the fresh oracle is consulted, an unrelated
// processor of the same database is driven through the same kind of query for ANOTHER zone and ANOTHER instant:
// whatever is shared now holds the decoy's leftovers, not the client's.
void TzDevice::decoy(const Desc& d, const Query& q) {
  if (!isZone(d.kind)) return;
  bool ext = isExt(d.kind);
  int full = ext ? zonedbx::kZoneRegistrySize : zonedb::kZoneRegistrySize;
  long other = (d.zone >= 0 ? d.zone : 0) + 97;
  Desc dd; dd.kind = ext ? K_XDIRECT : K_BDIRECT; dd.zi = shippedZone(ext, other % full);
  Query dq = q;
  if (dq.byEpoch()) dq.e = (dq.e == LocalDate::kInvalidEpochSeconds) ? 0 : ((dq.e / 2 + 40000000) % 1500000000);
  if (dq.byComponents()) { dq.y = 2000 + (dq.y + 7) % 50; dq.mo = 1 + (dq.mo + 5) % 12; dq.d = 1 + (dq.d + 11) % 28; dq.h = (dq.h + 9) % 24; dq.mi %= 60; dq.s %= 60; }
  (void)fresh(dd, dq, (uint8_t)(poison ^ 0x77));
}

Ans TzDevice::fresh(const Desc& d, const Query& q, uint8_t pz) {
  if (isBasic(d.kind)) {
    Storage st;
    BasicZoneProcessor* p = new (st.fresh(sizeof(BasicZoneProcessor), pz)) BasicZoneProcessor((const basic::ZoneInfo*)d.zi);
    TimeZone tz = TimeZone::forZoneInfo((const basic::ZoneInfo*)d.zi, p);
    return ask(tz, q);
  }
  if (isExt(d.kind)) {
    Storage st;
    ExtendedZoneProcessor* p = new (st.fresh(sizeof(ExtendedZoneProcessor), pz)) ExtendedZoneProcessor((const extended::ZoneInfo*)d.zi);
    TimeZone tz = TimeZone::forZoneInfo((const extended::ZoneInfo*)d.zi, p);
    return ask(tz, q);
  }
  if (d.kind == K_MANUAL) {
    TimeZone tz = TimeZone::forTimeOffset(TimeOffset::forMinutes(d.stdMin), TimeOffset::forMinutes(d.dstMin));
    return ask(tz, q);
  }
  return ask(TimeZone::forError(), q);
}

static const char* argClass(const Query& q, int startYear, int untilYear) {
  if (q.kind == "print" || q.kind == "prints" || q.kind == "zid") return "none";
  if (q.byEpoch() && q.e == LocalDate::kInvalidEpochSeconds) return "sentinel";
  int y = q.year();
  // mirrors the library's own definition of an invalid component (24:00:00 is a valid LocalTime)
  if (q.byComponents() && (q.mo < 1 || q.mo > 12 || q.d < 1 || q.d > 31 || q.h > 24 || q.mi > 59 || q.s > 59
      || (q.h == 24 && (q.mi != 0 || q.s != 0))))
    return "badcomp";
  if (y < startYear - 1) return y >= startYear - 2 ? "below-edge" : "below";
  if (y == startYear - 1) return "first";
  if (y > untilYear) return y <= untilYear + 1 ? "above-edge" : "above";
  if (y == untilYear) return "until";
  return "in";
}

static const char* stateName(const ProcShadow& sh, const void* zi, int year) {
  if (!sh.used) return "unfilled";
  if (sh.zi != zi) return "other-zone";
  if (sh.ok) return sh.year == year ? "same-year" : "other-year";
  return sh.year == year ? "failed-same-year" : "failed-other-year";
}

void TzDevice::doQuery(int c, const Query& q, int opIndex, Verdict& v, Coverage& cov, Bitmap* bm) {
  Client& cl = clients[c];
  if (cl.d.kind == K_EMPTY) return;
  cov.count("tz.queries");
  const Desc d = cl.d;
  if (opts.freshOnly) {
    // pristine reference process: only the fresh oracle's questions are asked, in order; no client, no decoy
    // Each question is answered in a process of its own (forked from this one, which has executed no query), so
    // that not even an earlier fresh question of the same run can have left anything behind.
    if (opts.armC08 && (questionStride <= 1 || (questionCounter++ % questionStride == 0 && questionsChecked++ < 16))) {
      uint64_t h = 0;
      int c[2];
      if (pipe(c) == 0) {
        pid_t k = fork();
        if (k == 0) {
          close(c[0]);
          Ans f = fresh(d, q, (uint8_t)(poison ^ 0x3c));
          uint64_t hh = answerHash(f.show());
          if (write(c[1], &hh, sizeof hh) < 0) {}
          _exit(0);
        }
        close(c[1]);
        if (k > 0) {
          if (read(c[0], &h, sizeof h) != (ssize_t)sizeof h) h = 0xdeadULL;   // the child died: counts as a different answer
          int st; waitpid(k, &st, 0);
        }
        close(c[0]);
      }
      freshLog.push_back(std::make_pair(opIndex, h));
    }
    return;
  }
  int startYear = 2000, untilYear = 2050;
  if (isBasic(d.kind)) { basic::ZoneInfoBroker b((const basic::ZoneInfo*)d.zi); startYear = b.startYear(); untilYear = b.untilYear(); }
  if (isExt(d.kind)) { extended::ZoneInfoBroker b((const extended::ZoneInfo*)d.zi); startYear = b.startYear(); untilYear = b.untilYear(); }
  const char* ac = argClass(q, startYear, untilYear);
  const int year = q.year();
  const bool fills = q.byEpoch() || q.byComponents();

  // coverage: state of the processor that will serve this query (bookkeeping only)
  ProcShadow* sh = nullptr;
  bool evicted = false, rebind = false;
  if (d.kind == K_BDIRECT && cl.proc >= 0) sh = &bproc[cl.proc].sh;
  else if (d.kind == K_XDIRECT && cl.proc >= 0) sh = &xproc[cl.proc].sh;
  else if (d.kind == K_BMGR && bmgr.base) sh = &bmgr.touch(d.zi, evicted, rebind);
  else if (d.kind == K_XMGR && xmgr.base) sh = &xmgr.touch(d.zi, evicted, rebind);
  if (sh) {
    const char* st = stateName(*sh, d.zi, year);
    if ((d.kind == K_BDIRECT || d.kind == K_XDIRECT) && sh->used && sh->zi != d.zi) rebind = true;
    if (evicted) cov.count("fault.evict");
    if (rebind) cov.count("fault.rebind");
    cov.cell("c08", fmt("%s|%s|%s|%s", kindName(d.kind), st, q.kind.c_str(), ac));
    bool nt = fills && sh->used && !(sh->zi == d.zi && sh->ok && sh->year == year);
    if (nt) { sawNontrivial = true; cov.count("tz.nontrivial_queries"); }
    if (bm && opts.armC09 && fills && year >= 1999 && year <= 2050 && d.zone >= 0) {
      // device profile: which (zone, year) cache fills were monitored (pool / dropped-transition monitors)
      size_t zbase = isExt(d.kind) ? (size_t)zonedb::kZoneRegistrySize : 0;
      bm->set((zbase + (size_t)d.zone) * 52 + (size_t)(year - 1999));
    }
    if (bm && !opts.armC09 && fills && sh->used && sh->zi == d.zi && sh->year >= 1999 && sh->year <= 2050
        && year >= 1999 && year <= 2050 && d.zone >= 0) {
      size_t zbase = isExt(d.kind) ? (size_t)zonedb::kZoneRegistrySize : 0;
      bm->set(((zbase + (size_t)d.zone) * 52 + (size_t)(sh->year - 1999)) * 52 + (size_t)(year - 1999));
    }
  }
  if (strcmp(ac, "in") != 0 && strcmp(ac, "none") != 0 && strcmp(ac, "first") != 0 && strcmp(ac, "until") != 0)
    cov.count("fault.oor_query");

  if (d.kind == K_XDIRECT && opts.armC09 && cl.proc >= 0 && xproc[cl.proc].p)
    xproc[cl.proc].p->resetTransitionHighWater();

  // In some runs (decoyfirst=1) the unrelated decoy also runs BEFORE the client: a static that the FIRST writer wins is
  // then owned by a foreign zone by the time client and fresh processor are asked, and only the pristine reference
  // process still answers correctly. (Not in every run: a decoy in front would also overwrite a static that the LAST
  // writer wins and so hide a dependence between two consecutive client queries.)
  if (opts.armC08 && decoyFirst) decoy(d, q);

  // the real query
  if (opts.armC09) scribbleStack(0x01);
  Ans r = ask(cl.tz, q);
  if (opts.armC09) {
    // ... and once more over other stack residue: a value the code returns without having written it (undefined
    // behaviour no sanitizer here reports) differs between the two, and so does an error that is only an error by luck
    scribbleStack(0x05);
    Ans again = ask(cl.tz, q);
    cov.count("c09.stack_residue_checks");
    // A deterministic difference between the answer of the call that fills the cache and the answer of a call that
    // hits it (third ask == second ask, both values or both errors) is a history dependence: C08's subject, found by
    // C08's own check, not reported here. What is reported: answers that keep changing, and an error that turns into
    // a value or back.
    bool report = !equalAns(r, again);
    if (report && r.err == again.err) {
      scribbleStack(0x01);
      Ans third = ask(cl.tz, q);
      if (equalAns(again, third)) { report = false; cov.count("c09.fill_vs_hit_difference_left_to_c08"); }
    }
    if (report) {
      v.fail("c09-unstable-answer", fmt("client %d (%s %s): the same %s question asked twice in a row, over different stack residue, "
          "is answered %s and then %s (a result the code never wrote, or an error that does not persist)", c, kindName(d.kind),
          zoneName(d.kind, d.zi), q.kind.c_str(), r.show().c_str(), again.show().c_str()), opIndex);
    }
  }

  if (sh && fills) {
    sh->used = true; sh->zi = d.zi; sh->year = year;
    sh->ok = q.kind == "abbrev" ? !r.s.empty() : !r.err;
  } else if (sh && !sh->used && isZone(d.kind) && (d.kind == K_BMGR || d.kind == K_XMGR)) {
    sh->used = true; sh->zi = d.zi; sh->year = 0; sh->ok = false;  // bound by the cache, not filled
  }

  if (opts.armC08) {
    uint8_t p1 = (uint8_t)(poison ^ 0x3c), p2 = (uint8_t)~p1;
    decoy(d, q);
    scribbleStack(p1);
    Ans f1 = fresh(d, q, p1);
    scribbleStack(p2);
    Ans f2 = fresh(d, q, p2);
    freshLog.push_back(std::make_pair(opIndex, answerHash(f1.show())));
    if (isZone(d.kind) && equalAns(f1, f2)) {
      // a fresh zone must also agree with what a fresh zone answered to the same question earlier in this run
      std::string key = fmt("%p|%s|%lld|%d-%d-%d-%d-%d-%d", d.zi, q.kind.c_str(), (long long)(q.byEpoch() ? q.e : 0),
          q.byComponents() ? q.y : 0, q.byComponents() ? q.mo : 0, q.byComponents() ? q.d : 0,
          q.byComponents() ? q.h : 0, q.byComponents() ? q.mi : 0, q.byComponents() ? q.s : 0);
      std::string now = f1.show();
      std::map<std::string, std::pair<std::string, int> >::iterator it = freshSeen.find(key);
      if (it == freshSeen.end()) freshSeen[key] = std::make_pair(now, opIndex);
      else {
        cov.count("c08.fresh_repeat_checks");
        if (it->second.first != now) {
          v.fail("c08-fresh-drift", fmt("a freshly constructed %s time zone answers %s to %s now, but a freshly constructed one "
              "answered %s to the same question at op %d of this run: state shared between processors", zoneName(d.kind, d.zi),
              now.c_str(), q.kind.c_str(), it->second.first.c_str(), it->second.second), opIndex);
        }
      }
    }
    if (!equalAns(f1, f2)) {
      v.fail("c08-fresh-undefined", fmt("two fresh %s time zones for %s in storage filled with 0x%02x / 0x%02x "
          "disagree on %s: %s vs %s (the code read memory it never wrote)", kindName(d.kind),
          zoneName(d.kind, d.zi), p1, p2, q.kind.c_str(), f1.show().c_str(), f2.show().c_str()), opIndex);
    } else if (!equalAns(r, f1)) {
      v.fail(fmt("c08-history-%s", q.kind.c_str()), fmt("client %d (%s %s) answered %s to %s(%s); a freshly "
          "constructed time zone with its own processor answers %s", c, kindName(d.kind), zoneName(d.kind, d.zi),
          r.show().c_str(), q.kind.c_str(),
          q.byComponents() ? fmt("%d-%02d-%02dT%02d:%02d:%02d", q.y, q.mo, q.d, q.h, q.mi, q.s).c_str()
                           : fmt("%lld", (long long)q.e).c_str(),
          f1.show().c_str()), opIndex);
    }
    cov.count("c08.comparisons");
  }

  // (arguments inside the zone data only: what happens to out-of-range arguments after a history is C08/C09's subject)
  if (opts.armC16 && cl.restored && isZone(d.kind) && fills && strcmp(ac, "in") == 0) {
    // "gives identical answers" - not only right after the restore: whenever a restored zone is asked
    // something later in the run, the zone the same manager creates directly is asked the same thing
    MgrSlot& m = isExt(d.kind) ? xmgr : bmgr;
    if (m.base) {
      TimeZone direct = m.createForZoneInfo(d.zi);
      Ans b = ask(direct, q);
      Ans a2 = ask(cl.tz, q);
      cov.count("c16.later_answer_checks");
      if (!equalAns(r, b) || !equalAns(a2, b)) {
        v.fail("c16-restore-answers", fmt("%s: the restored zone answers %s (and %s when asked again) to %s, the zone created "
            "directly by the same manager answers %s", zoneName(d.kind, d.zi), r.show().c_str(), a2.show().c_str(),
            q.kind.c_str(), b.show().c_str()), opIndex);
      }
    }
  }

  if (opts.armC09) {
    // M2: arguments the generator knows are outside the supported range stay errors
    bool sentinel = q.byEpoch() && q.e == LocalDate::kInvalidEpochSeconds;
    bool badcomp = strcmp(ac, "badcomp") == 0;
    bool far = isZone(d.kind) && fills && (year <= startYear - 3 || year >= untilYear + 2);
    bool expectErr = false;
    if (sentinel && (q.kind == "zdt" || q.kind == "zops" || isZone(d.kind))) expectErr = true;
    if (badcomp) expectErr = true;
    if (far) expectErr = true;
    if (d.kind == K_ERROR && fills) expectErr = true;
    if (expectErr) {
      cov.count("c09.m2_checks");
      bool isErr = q.kind == "abbrev" ? r.s.empty() : r.err;
      if (!isErr) {
        v.fail("c09-error-lost", fmt("client %d (%s %s): %s with an argument outside the supported range (%s) "
            "returned the non-error value %s", c, kindName(d.kind), zoneName(d.kind, d.zi), q.kind.c_str(), ac,
            r.show().c_str()), opIndex);
      }
    }
    // M2' (relative): an argument the code itself answered with an error earlier in this run (for the
    // same zone, through any client) is by the code's own judgement outside the supported range, so the
    // answer must keep being an error - whatever was asked in between. Needs no opinion on the range.
    if (isZone(d.kind) && fills) {
      std::string key = fmt("%p|%s|%lld|%d-%d-%d-%d-%d-%d", d.zi, q.kind.c_str(), (long long)(q.byEpoch() ? q.e : 0),
          q.byComponents() ? q.y : 0, q.byComponents() ? q.mo : 0, q.byComponents() ? q.d : 0,
          q.byComponents() ? q.h : 0, q.byComponents() ? q.mi : 0, q.byComponents() ? q.s : 0);
      bool isErr = q.kind == "abbrev" ? r.s.empty() : r.err;
      std::map<std::string, int>::iterator it = errorSeen.find(key);
      if (it != errorSeen.end()) {
        cov.count("c09.m2_repeat_checks");
        if (!isErr) {
          v.fail("c09-error-not-persistent", fmt("client %d (%s %s): %s(%s) was answered with an error at op %d of this run "
              "and now returns the non-error value %s", c, kindName(d.kind), zoneName(d.kind, d.zi), q.kind.c_str(),
              q.byComponents() ? fmt("%d-%02d-%02dT%02d:%02d:%02d", q.y, q.mo, q.d, q.h, q.mi, q.s).c_str()
                               : fmt("%lld", (long long)q.e).c_str(), it->second, r.show().c_str()), opIndex);
        }
      } else if (isErr) {
        errorSeen[key] = opIndex;
      }
    }
    // M3: pools
    if (d.kind == K_XDIRECT && cl.proc >= 0 && xproc[cl.proc].p && fills) {
      int hw = xproc[cl.proc].p->getTransitionHighWater();
      int bufSize = ((const extended::ZoneInfo*)d.zi)->transitionBufSize;
      cov.count("c09.m3_checks");
      cov.cell("c09.hw", fmt("%d", hw));
      if (hw >= bufSize || hw >= 8) {
        v.fail("c09-pool-highwater", fmt("%s year %d: transition pool high-water mark %d, recorded "
            "transitionBufSize %d, capacity 8", zoneName(d.kind, d.zi), year, hw, bufSize), opIndex);
      }
    }
    if (ace_time_verif_basic_dropped != 0) {
      v.fail("c09-basic-dropped", fmt("%s year %d: BasicZoneProcessor dropped %lu transition(s) for lack of "
          "cache slots", zoneName(d.kind, d.zi), year, ace_time_verif_basic_dropped), opIndex);
      ace_time_verif_basic_dropped = 0;
    }
    cov.cell("c09", fmt("%s|%s|%s", q.kind.c_str(), ac, kindName(d.kind)));
  }
  lastQ = q;
}

void TzDevice::checkPairs(int opIndex, Verdict& v, Coverage& cov) {
  for (int i = 0; i < kMaxClients; i++) {
    if (clients[i].d.kind == K_EMPTY) continue;
    for (int j = i; j < kMaxClients; j++) {
      if (clients[j].d.kind == K_EMPTY) continue;
      bool eq = clients[i].tz == clients[j].tz;
      bool ne = clients[i].tz != clients[j].tz;
      bool want = sameDesc(clients[i].d, clients[j].d);
      cov.count("c16.pair_checks");
      if (eq != want || ne == eq) {
        v.fail("c16-equality", fmt("clients %d (%s %s %d/%d) and %d (%s %s %d/%d): operator== says %d, "
            "operator!= says %d, same kind and same zone/offsets is %d", i, kindName(clients[i].d.kind),
            zoneName(clients[i].d.kind, clients[i].d.zi), clients[i].d.stdMin, clients[i].d.dstMin, j,
            kindName(clients[j].d.kind), zoneName(clients[j].d.kind, clients[j].d.zi), clients[j].d.stdMin,
            clients[j].d.dstMin, eq ? 1 : 0, ne ? 1 : 0, want ? 1 : 0), opIndex);
        return;
      }
    }
  }
}

static bool parseQuery(const std::vector<std::string>& t, size_t at, Query& q) {
  if (t.size() <= at) return false;
  q.kind = t[at];
  if (q.byEpoch()) q.e = tokInt(t, at + 1, 0);
  else if (q.byComponents()) {
    q.y = (int)tokInt(t, at + 1, 2000); q.mo = (int)tokInt(t, at + 2, 1); q.d = (int)tokInt(t, at + 3, 1);
    q.h = (int)tokInt(t, at + 4, 0); q.mi = (int)tokInt(t, at + 5, 0); q.s = (int)tokInt(t, at + 6, 0);
  } else if (!(q.kind == "print" || q.kind == "prints" || q.kind == "zid")) return false;
  return true;
}

void TzDevice::exec(const std::vector<std::string>& t, int opIndex, Verdict& v, Coverage& cov, Bitmap* bm) {
  const std::string& op = t[0];
  if (op == "CFG") {
    if (t.size() > 1 && t[1] == "TZ") { poison = (uint8_t)kvInt(t, "poison", 0xA5); decoyFirst = kvInt(t, "decoyfirst", 0) != 0; }
    return;
  }
  cov.count("ops");
  if (op == "PROC") {          // PROC b|x <i>
    bool ext = t.size() > 1 && t[1] == "x";
    long i = tokInt(t, 2, 0);
    if (i < 0 || i >= kMaxProcs) return;
    dropClientsOfProc(ext ? K_XDIRECT : K_BDIRECT, (int)i);
    if (ext) xproc[i].construct(poison); else bproc[i].construct(poison);
  } else if (op == "MGR") {    // MGR b|x size=<n> reg=...
    bool ext = t.size() > 1 && t[1] == "x";
    MgrSlot& m = ext ? xmgr : bmgr;
    dropClientsOf(ext ? K_XMGR : K_BMGR);
    m.ext = ext;
    buildRegistry(m, t);
    long sz = kvInt(t, "size", 1);
    if (sz < 1) sz = 1;
    if (sz > 4) sz = 4;
    m.construct(ext, (int)sz, poison);
    cov.cell("mgr", fmt("%s%ld|%s", ext ? "x" : "b", sz, kvStr(t, "reg", "full").c_str()));
  } else if (op == "TZ") {     // TZ <slot> <how> ...
    long s = tokInt(t, 1, -1);
    if (s < 0 || s >= kMaxClients || t.size() < 3) return;
    const std::string& how = t[2];
    Client c;
    if (how == "bdirect" || how == "xdirect") {
      bool ext = how[0] == 'x';
      long z = tokInt(t, 3, 0), p = kvInt(t, "proc", 0);
      const void* zi = shippedZone(ext, z);
      if (!zi || p < 0 || p >= kMaxProcs) return;
      if (ext) { if (!xproc[p].p) return; c.tz = TimeZone::forZoneInfo((const extended::ZoneInfo*)zi, xproc[p].p); }
      else { if (!bproc[p].p) return; c.tz = TimeZone::forZoneInfo((const basic::ZoneInfo*)zi, bproc[p].p); }
      c.d.kind = ext ? K_XDIRECT : K_BDIRECT; c.d.zi = zi; c.d.zone = (int)z; c.d.zoneId = zoneIdOf(ext, zi); c.proc = (int)p;
    } else if (how == "bmgr" || how == "xmgr" || how == "bmgri" || how == "xmgri" || how == "bmgrid" || how == "xmgrid") {
      bool ext = how[0] == 'x';
      MgrSlot& m = ext ? xmgr : bmgr;
      if (!m.base) return;
      long z = tokInt(t, 3, 0);
      const void* zi = nullptr;
      if (how.size() == 4) {            // createForZoneInfo: no search involved
        zi = shippedZone(ext, z);
        if (!zi) return;
        c.tz = m.createForZoneInfo(zi);
      } else if (how.size() == 5) {     // createForZoneIndex into the manager's registry
        c.tz = m.base->createForZoneIndex((uint16_t)z);
        zi = (z >= 0 && (size_t)z < m.registry.size()) ? m.registry[z] : nullptr;
      } else {                          // createForZoneId of a shipped zone (may be absent from the registry)
        const void* want = shippedZone(ext, z);
        if (!want) return;
        uint32_t id = zoneIdOf(ext, want);
        c.tz = m.base->createForZoneId(id);
        zi = m.findById(id);
      }
      if (zi) {
        c.d.kind = ext ? K_XMGR : K_BMGR; c.d.zi = zi; c.d.zoneId = zoneIdOf(ext, zi);
        c.d.zone = -1;
        int full = ext ? zonedbx::kZoneRegistrySize : zonedb::kZoneRegistrySize;
        for (int i = 0; i < full; i++) if (shippedZone(ext, i) == zi) { c.d.zone = i; break; }
        if (opts.armC16 && (c.tz.isError() || c.tz.getZoneId() != c.d.zoneId)) {
          v.fail("c16-create", fmt("manager %s created for a zone its registry contains (%s) is %s", how.c_str(),
              zoneName(c.d.kind, zi), c.tz.isError() ? "the error zone" : "a different zone"), opIndex);
        }
      } else {
        c.d.kind = c.tz.isError() ? K_ERROR : K_EMPTY;
        // by id: the statement's "ids not in the registry [give] the error zone" (same path as a restore).
        // by index: the statement says nothing; whatever comes back is simply not tracked.
        if (opts.armC16 && how.size() == 6 && !c.tz.isError()) {
          v.fail("c16-create", fmt("manager %s for an id not in the registry did not return the error zone", how.c_str()), opIndex);
        }
        if (c.d.kind == K_EMPTY) return;
      }
    } else if (how == "bdata" || how == "xdata") {
      // created through the restore path from a saved form built on the spot (no store involved): lets the
      // tz-history profile ask restored zones the same questions as every other kind
      bool ext = how[0] == 'x';
      MgrSlot& m = ext ? xmgr : bmgr;
      long z = tokInt(t, 3, 0);
      const void* want = shippedZone(ext, z);
      if (!m.base || !want) return;
      const uint32_t dataZoneId = zoneIdOf(ext, want);
      TimeZoneData data(dataZoneId);
      c.tz = m.base->createForTimeZoneData(data);
      const void* zi = m.findById(dataZoneId);
      if (!zi || c.tz.isError()) { c.d.kind = K_ERROR; if (!c.tz.isError()) return; }
      else if (c.tz.getType() != (ext ? TimeZone::kTypeExtendedManaged : TimeZone::kTypeBasicManaged)
          || c.tz.getZoneId() != dataZoneId) {
        // the restore path handed back something other than the zone asked for: that is C16's subject (the tz-restore
        // profile reports it); here the client is simply not created
        if (opts.armC16) v.fail("c16-create", fmt("createForTimeZoneData for zone id %lu present in the registry returned type %d id %lu",
            (unsigned long)dataZoneId, (int)c.tz.getType(), (unsigned long)c.tz.getZoneId()), opIndex);
        return;
      }
      else { c.d.kind = ext ? K_XMGR : K_BMGR; c.d.zi = zi; c.d.zoneId = dataZoneId; c.d.zone = (int)z; c.restored = true; }
    } else if (how == "bname" || how == "xname") {
      // Creation by NAME, the way a device does it for a zone typed at its console: the name arrives in the ONE line
      // buffer the device has (overwritten by the next line), or in a heap block of exactly its size that is freed
      // right after the call (a manager that keeps the caller's pointer reads freed memory: ASan). Whether absent or
      // misspelt names are rejected is C10's business and is not judged; the call must return (C09). A name the
      // manager's registry DOES contain denotes that zone, whatever was looked up before: the client is catalogued
      // from the name by the simulator's own search, so that C08's fresh-zone comparison is against the named zone.
      bool ext = how[0] == 'x';
      MgrSlot& m = ext ? xmgr : bmgr;
      if (!m.base || t.size() < 4) return;
      std::string name = t[3] == "EMPTY" ? "" : t[3];
      if (name.size() > sizeof(nameBuf) - 1) name.resize(sizeof(nameBuf) - 1);
      if (kvStr(t, "buf", "reuse") == "heap") {
        char* h = (char*)malloc(name.size() + 1);
        memcpy(h, name.c_str(), name.size() + 1);
        c.tz = m.base->createForZoneName(h);
        memset(h, '#', name.size());
        free(h);
      } else {
        memcpy(nameBuf, name.c_str(), name.size() + 1);
        c.tz = m.base->createForZoneName(nameBuf);
      }
      cov.count("probe.create_by_name");
      const void* named = nullptr;
      for (size_t i = 0; i < m.registry.size(); i++) {
        if (name == zoneName(ext ? K_XMGR : K_BMGR, m.registry[i])) { named = m.registry[i]; break; }
      }
      if (c.tz.isError()) { c.d.kind = K_ERROR; cov.count("probe.create_by_name_absent"); }
      else {
        if (named && c.tz.getZoneId() != zoneIdOf(ext, named)) {
          // The manager handed out another zone than the one named. Is that HISTORY? Ask a manager built this instant
          // over the same registry, with the name in a block of its own. If it names the same other zone, the lookup
          // is simply not exact - C10's subject, not C08's or C16's: the client is catalogued as what it is and the
          // run goes on. Only if a manager without history finds the right zone is the difference due to what this
          // manager was asked before, and the client stays catalogued from its name (C08 compares it with the named
          // zone at the next question).
          cov.count("probe.create_by_name_other_zone");
          MgrSlot probe;
          probe.registry = m.registry;
          probe.construct(ext, m.size, (uint8_t)(poison ^ 0x5a));
          char* h = (char*)malloc(name.size() + 1);
          memcpy(h, name.c_str(), name.size() + 1);
          TimeZone again = probe.base->createForZoneName(h);
          free(h);
          if (!again.isError() && again.getZoneId() == c.tz.getZoneId()) {
            named = nullptr;
            cov.count("probe.create_by_name_inexact_without_history");
          }
        }
        const void* zi = named ? named : m.findById(c.tz.getZoneId());
        if (!zi) return;
        c.d.kind = ext ? K_XMGR : K_BMGR; c.d.zi = zi; c.d.zoneId = zoneIdOf(ext, zi);
        c.d.zone = -1;
        int full = ext ? zonedbx::kZoneRegistrySize : zonedb::kZoneRegistrySize;
        for (int i = 0; i < full; i++) if (shippedZone(ext, i) == zi) { c.d.zone = i; break; }
      }
    } else if (how == "manual") {
      long sm = tokInt(t, 3, 0), dm = tokInt(t, 4, 0);
      c.tz = TimeZone::forTimeOffset(TimeOffset::forMinutes((int16_t)sm), TimeOffset::forMinutes((int16_t)dm));
      c.d.kind = K_MANUAL; c.d.stdMin = (int16_t)sm; c.d.dstMin = (int16_t)dm;
    } else if (how == "utc") {
      c.tz = TimeZone::forUtc(); c.d.kind = K_MANUAL;
    } else if (how == "error") {
      c.tz = TimeZone::forError(); c.d.kind = K_ERROR;
    } else if (how == "copy") {
      long o = tokInt(t, 3, -1);
      if (o < 0 || o >= kMaxClients || clients[o].d.kind == K_EMPTY) return;
      c = clients[o];   // TimeZone is a value type: copy construction / assignment
    } else return;
    clients[s] = c;
    cov.cell("client", kindName(c.d.kind));
  } else if (op == "Q" || op == "QR") {   // Q <slot> <kind> args ; QR <slot> = repeat the last query on <slot>
    long s = tokInt(t, 1, -1);
    if (s < 0 || s >= kMaxClients) return;
    Query q;
    if (op == "QR") { if (lastQ.kind.empty()) return; q = lastQ; cov.count("probe.repeated_query"); }
    else if (!parseQuery(t, 2, q)) return;
    doQuery((int)s, q, opIndex, v, cov, bm);
  } else if (op == "QN") {     // QN <slot> <kind>: query at the device clock's current time
    long s = tokInt(t, 1, -1);
    if (s < 0 || s >= kMaxClients || t.size() < 3 || !clockDev) return;
    Query q; q.kind = t[2];
    if (!q.byEpoch()) return;
    ace_time::clock::SystemClockLoop* c = clockDev->clock();
    q.e = c ? c->getNow() : LocalDate::kInvalidEpochSeconds;
    cov.count("probe.query_at_clock_now");
    doQuery((int)s, q, opIndex, v, cov, bm);
  } else if (op == "KEEP") {   // KEEP <slot> <epoch>: the application keeps a ZonedDateTime of this client's zone
    long s = tokInt(t, 1, -1);
    if (s < 0 || s >= kMaxClients || t.size() < 3 || clients[s].d.kind == K_EMPTY) return;
    int64_t e = tokInt(t, 2, 0);
    if (e < epochOfYearStart(1999) || e >= epochOfYearStart(2051)) return;   // kept values are ordinary ones
    Client& c = clients[s];
    c.kept = ZonedDateTime::forEpochSeconds((acetime_t)e, c.tz);
    c.hasKept = true;
    c.keptRepr = reprKept(c.kept);
    cov.count("probe.zdt_kept");
  } else if (op == "USE") {    // USE <slot>: ... and looks at it again after whatever happened in between
    long s = tokInt(t, 1, -1);
    if (s < 0 || s >= kMaxClients || !clients[s].hasKept || clients[s].d.kind == K_EMPTY) return;
    Client& c = clients[s];
    std::string now = reprKept(c.kept);
    cov.count("probe.zdt_kept_used");
    if (opts.armC08 && now != c.keptRepr) {
      v.fail("c08-history-kept", fmt("a ZonedDateTime kept by the application (client %d, %s %s) read \"%s\" when it was made and reads "
          "\"%s\" now, after other queries", (int)s, kindName(c.d.kind), zoneName(c.d.kind, c.d.zi), c.keptRepr.c_str(), now.c_str()), opIndex);
    }
  } else if (op == "MANSET") { // MANSET <slot> std|dst <minutes>
    long s = tokInt(t, 1, -1);
    if (s < 0 || s >= kMaxClients || t.size() < 4 || clients[s].d.kind == K_EMPTY) return;
    int16_t m = (int16_t)tokInt(t, 3, 0);
    Client& c = clients[s];
    if (t[2] == "std") { c.tz.setStdOffset(TimeOffset::forMinutes(m)); if (c.d.kind == K_MANUAL) c.d.stdMin = m; }
    else { c.tz.setDstOffset(TimeOffset::forMinutes(m)); if (c.d.kind == K_MANUAL) c.d.dstMin = m; }
    // on any other kind the setters must be no-ops: the pair check below and later queries see it
  } else if (op == "SAVE") {   // SAVE <slot> <store>
    long s = tokInt(t, 1, -1), k = tokInt(t, 2, -1);
    if (s < 0 || s >= kMaxClients || k < 0 || k >= kMaxStore || clients[s].d.kind == K_EMPTY) return;
    TimeZoneData d = clients[s].tz.toTimeZoneData();
    SavedForm& f = store[k];
    f.present = true; f.torn = false; f.d = clients[s].d;
    // stored as the object's bytes (what EEPROM.put() does): the harness reads no member of TimeZoneData, so that a
    // re-layout of the serialisable form that keeps the API is judged by what it restores, not by whether this compiles
    memset(f.bytes, 0, sizeof f.bytes);
    memcpy(f.bytes, &d, sizeof d);
    cov.count("c16.saves");
  } else if (op == "TEAR") {   // TEAR <store> <pos 0..4> <value>: one stored byte is overwritten (power loss mid-write, bit rot)
    long k = tokInt(t, 1, -1), pos = tokInt(t, 2, 0);
    if (k < 0 || k >= kMaxStore || !store[k].present || pos < 0 || pos > 4) return;
    // position 0: the first byte (the type tag); 1..4: the last four bytes (the payload)
    store[k].bytes[pos == 0 ? 0 : sizeof(TimeZoneData) - 5 + pos] = (uint8_t)tokInt(t, 3, 0);
    store[k].torn = true;
    cov.count("fault.torn_store_byte");
  } else if (op == "PARSE") {  // PARSE <ld|lt|ldt|odt|zdt|off> <hex of the line>
    if (!opts.armC09 || t.size() < 3) return;
    doParse(t[1], unhex(t[2]), opIndex, v, cov);
  } else if (op == "REBOOT") {
    dropVolatile();
    poison = (uint8_t)kvInt(t, "poison", poison);
    cov.count("fault.reboot");
  } else if (op == "RESTORE") {  // RESTORE <store> <slot> via=b|x e=<epoch> e2=<epoch>
    long k = tokInt(t, 1, -1), s = tokInt(t, 2, -1);
    if (s < 0 || s >= kMaxClients || k < 0 || k >= kMaxStore || !store[k].present) return;
    bool ext = kvStr(t, "via", "x") == "x";
    MgrSlot& m = ext ? xmgr : bmgr;
    if (!m.base) return;
    const SavedForm& f = store[k];
    TimeZoneData d;
    memcpy(&d, f.bytes, sizeof d);
    TimeZone tz = m.base->createForTimeZoneData(d);
    Client c; c.tz = tz;
    cov.count("c16.restores");
    const char* rel = "n/a";
    if (f.torn) {
      // Nothing is promised about the meaning of a corrupted record; it must still restore to SOME usable
      // time zone without crash or UB. The catalogue entry is derived from what came back.
      rel = "torn";
      if (tz.isError()) c.d.kind = K_ERROR;
      else if (tz.getType() == TimeZone::kTypeManual) {
        c.d.kind = K_MANUAL; c.d.stdMin = tz.getStdOffset().toMinutes(); c.d.dstMin = tz.getDstOffset().toMinutes();
      } else {
        const void* zi = m.findById(tz.getZoneId());
        if (!zi) return;
        c.d.kind = ext ? K_XMGR : K_BMGR; c.d.zi = zi; c.d.zoneId = tz.getZoneId();
      }
      cov.count("probe.restore_of_torn_record");
      clients[s] = c;
      return;
    }
    if (isZone(f.d.kind)) {
      const void* zi = m.findById(f.d.zoneId);
      rel = zi ? "present" : "absent";
      if (zi) {
        c.d.kind = ext ? K_XMGR : K_BMGR; c.d.zi = zi; c.d.zoneId = f.d.zoneId;
        int full = ext ? zonedbx::kZoneRegistrySize : zonedb::kZoneRegistrySize;
        for (int i = 0; i < full; i++) if (shippedZone(ext, i) == zi) { c.d.zone = i; break; }
        if (opts.armC16) {
          TimeZone direct = m.createForZoneInfo(zi);
          if (!(tz == direct) || tz != direct) {
            v.fail("c16-restore-zone", fmt("%s saved from a %s client and restored through the %s manager (size %d, "
                "registry of %d containing it) does not compare equal to the zone that manager creates directly%s",
                zoneName(c.d.kind, zi), kindName(f.d.kind), ext ? "extended" : "basic", m.size, (int)m.registry.size(),
                tz.isError() ? " (it is the error zone)" : ""), opIndex);
          } else if (tz.getZoneId() != f.d.zoneId) {
            v.fail("c16-restore-zone", fmt("restored zone id %lu, saved %lu", (unsigned long)tz.getZoneId(),
                (unsigned long)f.d.zoneId), opIndex);
          } else {
            // identical answers, asked alternately of the restored and the directly created value
            Query qs[4];
            qs[0].kind = "utc"; qs[0].e = kvInt(t, "e", 0);
            qs[1].kind = "abbrev"; qs[1].e = kvInt(t, "e", 0);
            qs[2].kind = "zdt"; qs[2].e = kvInt(t, "e2", 500000000);
            qs[3].kind = "print";
            for (int i = 0; i < 4 && !v.violated; i++) {
              Ans a = ask(tz, qs[i]), b = ask(direct, qs[i]);
              if (!equalAns(a, b)) {
                v.fail("c16-restore-answers", fmt("%s restored vs directly created by the same manager disagree on %s: "
                    "%s vs %s", zoneName(c.d.kind, zi), qs[i].kind.c_str(), a.show().c_str(), b.show().c_str()), opIndex);
              }
            }
          }
        }
      } else {
        c.d.kind = K_ERROR;
        cov.count("fault.registry_changed");
        if (opts.armC16 && !tz.isError()) {
          v.fail("c16-restore-absent", fmt("zone id %lu is not in the restoring manager's registry (%d entries) but "
              "the restored time zone is not the error zone (type %d)", (unsigned long)f.d.zoneId,
              (int)m.registry.size(), (int)tz.getType()), opIndex);
        }
      }
    } else if (f.d.kind == K_MANUAL) {
      c.d.kind = K_MANUAL; c.d.stdMin = f.d.stdMin; c.d.dstMin = f.d.dstMin;
      if (opts.armC16) {
        acetime_t e = (acetime_t)kvInt(t, "e", 0);
        if (tz.getType() != TimeZone::kTypeManual || tz.getStdOffset().toMinutes() != f.d.stdMin
            || tz.getDstOffset().toMinutes() != f.d.dstMin) {
          // (the offsets of a zone that is not manual are not read back: they are whatever the union holds)
          const bool man = tz.getType() == TimeZone::kTypeManual;
          v.fail("c16-restore-manual", fmt("manual zone std=%d dst=%d restored as type %d%s", f.d.stdMin,
              f.d.dstMin, (int)tz.getType(), man ? fmt(" std=%d dst=%d", tz.getStdOffset().toMinutes(),
              tz.getDstOffset().toMinutes()).c_str() : " (not a manual zone)"), opIndex);
        } else if (sumFits(f.d.stdMin, f.d.dstMin) && tz.getUtcOffset(e).toMinutes() != f.d.stdMin + f.d.dstMin) {
          v.fail("c16-manual-offset", fmt("manual zone std=%d dst=%d has UTC offset %d", f.d.stdMin, f.d.dstMin,
              tz.getUtcOffset(e).toMinutes()), opIndex);
        }
      }
    } else {
      c.d.kind = K_ERROR;
      if (opts.armC16 && !tz.isError()) {
        v.fail("c16-restore-error", fmt("the error zone was saved; restored type is %d", (int)tz.getType()), opIndex);
      }
    }
    cov.cell("c16", fmt("%s|%s%d|%s|%s", kindName(f.d.kind), ext ? "x" : "b", m.size, rel,
        m.registry.size() == (size_t)(ext ? zonedbx::kZoneRegistrySize : zonedb::kZoneRegistrySize) ? "full" : "subset"));
    if (isZone(c.d.kind)) c.restored = true;
    if (isZone(f.d.kind) && f.d.zone >= 0) cov.cell(isExt(f.d.kind) ? "c16.zones.x" : "c16.zones.b", fmt("%d", f.d.zone));
    if (f.d.kind == K_MANUAL) cov.cell("c16.manual", fmt("%d,%d", f.d.stdMin, f.d.dstMin));
    clients[s] = c;
    sawNontrivial = true;
  }

  if (opts.armC16 && !v.violated) {
    checkPairs(opIndex, v, cov);
    // a manual zone's offset is always standard plus DST offset
    for (int i = 0; i < kMaxClients && !v.violated; i++) {
      const Client& c = clients[i];
      if (c.d.kind != K_MANUAL) continue;
      // "always": at any instant, the extremes of acetime_t and the value that doubles as the invalid sentinel included
      static const int64_t kInstants[] = {0, -2147483648LL, 2147483647LL, -1, 946684800};
      const acetime_t when = (opIndex % 3 == 0) ? (acetime_t)kInstants[(opIndex / 3) % 5] : (acetime_t)(opIndex * 7919);
      int got = c.tz.getUtcOffset(when).toMinutes();
      // (a sum that does not fit the int16 minutes of a TimeOffset has no representable "standard plus DST")
      if ((sumFits(c.d.stdMin, c.d.dstMin) && got != c.d.stdMin + c.d.dstMin) || c.tz.getStdOffset().toMinutes() != c.d.stdMin
          || c.tz.getDstOffset().toMinutes() != c.d.dstMin || c.tz.getDeltaOffset(0).toMinutes() != c.d.dstMin) {
        v.fail("c16-manual-offset", fmt("manual client %d std=%d dst=%d: getUtcOffset(%ld)=%d getStdOffset=%d getDstOffset=%d",
            i, c.d.stdMin, c.d.dstMin, (long)when, got, c.tz.getStdOffset().toMinutes(), c.tz.getDstOffset().toMinutes()), opIndex);
      }
    }
  }
}

// ---------------------------------------------------------------------------
// Pristine reference process. A "fresh" processor built in a process that has already executed thousands of runs is
// only as fresh as function-local and class statics allow: a lazily initialised static that the first writer wins
// would poison client and fresh processor alike for the rest of the process. pristineInit() forks a zygote before
// anything has run; for a run it is handed the trace, forks a child that asks ONLY the fresh oracle's questions in
// order, and returns the running digests. They must equal the in-process fresh oracle's.
static int g_zyReq = -1, g_zyResp = -1;
static bool g_zyPending = false;
static unsigned g_questionStride = 1;   // set in the batch delegate's children: sample the questions

static void runTrace(const Trace& tr, TzDevice& dev, ClockDevice& clockDev, const TzOpts& o, Verdict& v, Coverage& cov, Bitmap* bm);

static bool writeAll(int fd, const void* p, size_t n) {
  const char* c = (const char*)p;
  while (n) { ssize_t k = write(fd, c, n); if (k <= 0) return false; c += k; n -= (size_t)k; }
  return true;
}
static bool readAll(int fd, void* p, size_t n) {
  char* c = (char*)p;
  while (n) { ssize_t k = read(fd, c, n); if (k <= 0) return false; c += k; n -= (size_t)k; }
  return true;
}

void pristineInit() {
  if (getenv("SIM_NO_PRISTINE")) return;
  int a[2], b[2];
  if (pipe(a) != 0 || pipe(b) != 0) return;
  pid_t z = fork();
  if (z < 0) return;
  if (z > 0) { close(a[0]); close(b[1]); g_zyReq = a[1]; g_zyResp = b[0]; return; }
  // zygote: never runs a trace itself
  close(a[1]); close(b[0]);
  signal(SIGALRM, SIG_DFL);
  for (;;) {
    uint32_t n;
    if (!readAll(a[0], &n, sizeof n)) _exit(0);
    std::string text(n, '\0');
    if (n && !readAll(a[0], &text[0], n)) _exit(0);
    int c[2];
    if (pipe(c) != 0) _exit(0);
    pid_t g = fork();
    if (g == 0) {
      close(c[0]);
      alarm(20);
      Trace tr;
      size_t pos = 0;
      bool first = true;
      while (pos < text.size()) {
        size_t e = text.find('\n', pos);
        if (e == std::string::npos) e = text.size();
        std::string line = text.substr(pos, e - pos);
        pos = e + 1;
        if (line.empty()) continue;
        if (first && line.compare(0, 8, "PROFILE ") == 0) { tr.profile = line.substr(8); first = false; continue; }
        first = false;
        tr.lines.push_back(line);
      }
      TzOpts o; o.armC08 = true; o.freshOnly = true;
      TzDevice* dev = new TzDevice(o);
      dev->questionStride = g_questionStride;   // the batch delegate samples the questions, replay checks all
      ClockOpts co; ClockDevice clockDev(co);
      Verdict v; Coverage cov;
      runTrace(tr, *dev, clockDev, o, v, cov, nullptr);
      uint32_t m = (uint32_t)dev->freshLog.size();
      writeAll(c[1], &m, sizeof m);
      for (uint32_t i = 0; i < m; i++) {
        int32_t op = dev->freshLog[i].first; uint64_t dg = dev->freshLog[i].second;
        writeAll(c[1], &op, sizeof op); writeAll(c[1], &dg, sizeof dg);
      }
      _exit(0);
    }
    close(c[1]);
    std::string resp;
    char buf[4096];
    ssize_t k;
    while ((k = read(c[0], buf, sizeof buf)) > 0) resp.append(buf, (size_t)k);
    close(c[0]);
    int st;
    waitpid(g, &st, 0);
    uint32_t rn = (uint32_t)resp.size();
    if (!writeAll(b[1], &rn, sizeof rn) || (rn && !writeAll(b[1], resp.data(), rn))) _exit(0);
  }
}

static int g_dgReq = -1, g_dgResp = -1;

void delegateInit() {
  if (getenv("SIM_NO_PRISTINE")) return;
  int a[2], b[2];
  if (pipe(a) != 0 || pipe(b) != 0) return;
  pid_t z = fork();
  if (z < 0) return;
  if (z > 0) { close(a[0]); close(b[1]); g_dgReq = a[1]; g_dgResp = b[0]; return; }
  close(a[1]); close(b[0]);
  signal(SIGALRM, SIG_DFL);
  for (;;) {
    uint32_t n;
    if (!readAll(a[0], &n, sizeof n)) _exit(0);
    std::string text(n, '\0');
    if (n && !readAll(a[0], &text[0], n)) _exit(0);
    int c[2];
    if (pipe(c) != 0) _exit(0);
    pid_t g = fork();
    if (g == 0) {
      close(c[0]);
      alarm(40);
      g_questionStride = 4;
      pristineInit();   // this process is still pristine: its own reference zygote
      Trace tr;
      size_t pos = 0;
      bool first = true;
      while (pos < text.size()) {
        size_t e = text.find('\n', pos);
        if (e == std::string::npos) e = text.size();
        std::string line = text.substr(pos, e - pos);
        pos = e + 1;
        if (line.empty()) continue;
        if (first && line.compare(0, 8, "PROFILE ") == 0) { tr.profile = line.substr(8); first = false; continue; }
        first = false;
        tr.lines.push_back(line);
      }
      Verdict v; Coverage cov; bool nt = false;
      execTz(tr, v, cov, nt, nullptr);
      std::string out = v.violated ? (v.vclass + "\n" + fmt("%d", v.opIndex) + "\n" + v.message) : std::string();
      uint32_t m = (uint32_t)out.size();
      writeAll(c[1], &m, sizeof m);
      if (m) writeAll(c[1], out.data(), m);
      if (g_zyReq >= 0) close(g_zyReq);   // lets the inner zygote exit
      _exit(0);
    }
    close(c[1]);
    std::string resp;
    char buf[4096];
    ssize_t k;
    while ((k = read(c[0], buf, sizeof buf)) > 0) resp.append(buf, (size_t)k);
    close(c[0]);
    int st;
    waitpid(g, &st, 0);
    if (resp.size() < 4) { uint32_t zero = 0; resp.assign((const char*)&zero, 4); }   // the delegate died: no verdict
    if (!writeAll(b[1], resp.data(), resp.size())) _exit(0);
  }
}

bool delegateRequest(const Trace& tr) {
  if (g_dgReq < 0 || g_dgResp < 0) return false;
  std::string text = tr.text();
  uint32_t n = (uint32_t)text.size();
  return writeAll(g_dgReq, &n, sizeof n) && writeAll(g_dgReq, text.data(), n);
}

bool delegateResponse(Verdict& v) {
  uint32_t m = 0;
  if (!readAll(g_dgResp, &m, sizeof m)) { g_dgResp = -1; return false; }
  std::string out(m, '\0');
  if (m && !readAll(g_dgResp, &out[0], m)) { g_dgResp = -1; return false; }
  if (!m) return true;
  size_t p1 = out.find('\n'), p2 = out.find('\n', p1 + 1);
  if (p1 == std::string::npos || p2 == std::string::npos) return true;
  v.fail(out.substr(0, p1), out.substr(p2 + 1), atoi(out.substr(p1 + 1, p2 - p1 - 1).c_str()));
  return true;
}

static void pristineDrain() {
  if (!g_zyPending) return;
  g_zyPending = false;
  uint32_t rn;
  if (!readAll(g_zyResp, &rn, sizeof rn)) { g_zyResp = -1; return; }
  std::string junk(rn, '\0');
  if (rn) readAll(g_zyResp, &junk[0], rn);
}

static void runTrace(const Trace& tr, TzDevice& dev, ClockDevice& clockDev, const TzOpts& o, Verdict& v, Coverage& cov, Bitmap* bm) {
  for (size_t i = 0; i < tr.lines.size() && !v.violated; i++) {
    g_curOp = (int)i;
    std::vector<std::string> t = splitWs(tr.lines[i]);
    if (t.empty()) continue;
    if (o.armC09) {
      if ((t[0] == "CFG" && t.size() > 1 && t[1] == "CLOCK") || t[0] == "REF") { clockDev.configure(t); continue; }
      if (clockDev.exec(t, (int)i, v, cov)) {
        if (t[0] != "REBOOT") { ubAfterOp(v, (int)i, tr.lines[i]); continue; }   // REBOOT goes to both parts
      }
    }
    dev.exec(t, (int)i, v, cov, bm);
    ubAfterOp(v, (int)i, tr.lines[i]);
  }
}

bool execTz(const Trace& tr, Verdict& v, Coverage& cov, bool& nontrivial, Bitmap* bm) {
  TzOpts o;
  o.armC08 = tr.profile == "tz-history";
  o.armC16 = tr.profile == "tz-restore";
  o.armC09 = tr.profile == "device";
  static TzDevice* devStorage = nullptr;   // large object (poisoned stores): reuse the allocation
  if (devStorage) { delete devStorage; devStorage = nullptr; }
  devStorage = new TzDevice(o);
  TzDevice& dev = *devStorage;
  ClockOpts co;
  ClockDevice clockDev(co);
  if (o.armC09) dev.clockDev = &clockDev;
  ace_time_verif_basic_dropped = 0;
  pristineDrain();   // a previous run may have been cut short (crash recovery) before collecting its answer
  bool asked = false;
  if (o.armC08 && g_zyReq >= 0 && g_zyResp >= 0) {
    std::string text = tr.text();
    uint32_t n = (uint32_t)text.size();
    asked = writeAll(g_zyReq, &n, sizeof n) && writeAll(g_zyReq, text.data(), n);
    g_zyPending = asked;
  }
  runTrace(tr, dev, clockDev, o, v, cov, bm);
  if (asked) {
    g_zyPending = false;
    uint32_t rn = 0;
    std::string resp;
    if (readAll(g_zyResp, &rn, sizeof rn)) { resp.resize(rn); if (rn && !readAll(g_zyResp, &resp[0], rn)) resp.clear(); }
    else g_zyResp = -1;
    cov.count("c08.pristine_process_runs");
    if (resp.size() >= 4) {
      uint32_t m; memcpy(&m, resp.data(), 4);
      std::map<int, uint64_t> mine;
      for (size_t i = 0; i < dev.freshLog.size(); i++) mine[dev.freshLog[i].first] = dev.freshLog[i].second;
      for (size_t i = 0; i < m && 4 + (i + 1) * 12 <= resp.size(); i++) {
        int32_t op; uint64_t hh;
        memcpy(&op, resp.data() + 4 + i * 12, 4); memcpy(&hh, resp.data() + 8 + i * 12, 8);
        if (v.violated && op >= v.opIndex) break;   // an earlier violation wins
        std::map<int, uint64_t>::iterator it = mine.find(op);
        if (it == mine.end()) continue;
        cov.count("c08.pristine_question_checks");
        if (it->second != hh) {
          Verdict v2;
          v2.fail("c08-fresh-drift", fmt("the freshly constructed time zone asked at op %d answers differently in this process than "
              "in a process where nothing has run before: state that outlives a processor (a static) is shared", op), op);
          v = v2;
          break;
        }
      }
    }
  }
  nontrivial = dev.sawNontrivial;
  return true;
}

// ---------------------------------------------------------------------------
// Generator

namespace {

struct Mix {
  bool clock = false;       // device profile: clock ops too
  bool restore = false;     // SAVE / REBOOT / RESTORE / manual / error kinds
  bool extremes = false;    // INT32 extremes and far-out component years (C09 only)
  int wQuery = 80, wRepeat = 10, wSetup = 5, wSave = 0, wRestore = 0, wReboot = 0, wManset = 0, wClock = 0;
};

struct Gen {
  Rng rng;
  Trace tr;
  Mix mix;
  std::vector<int> bz, xz;   // this run's small zone sets (indices into the shipped registries)
  bool haveB[kMaxProcs], haveX[kMaxProcs];
  bool haveBm = false, haveXm = false;
  Kind ckind[kMaxClients];
  int czone[kMaxClients];
  bool saved[kMaxStore];
  int savedZone[kMaxStore]; Kind savedKind[kMaxStore];
  int64_t lastE = 0; int lastY = 2020;
  bool haveManual = false; int lastStd = 0, lastDst = 0;
  std::vector<std::pair<int, std::string> > recent;   // a few earlier queries of this run (client, query text)
  explicit Gen(uint64_t seed) : rng(seed) {
    for (int i = 0; i < kMaxProcs; i++) haveB[i] = haveX[i] = false;
    for (int i = 0; i < kMaxClients; i++) { ckind[i] = K_EMPTY; czone[i] = -1; }
    for (int i = 0; i < kMaxStore; i++) { saved[i] = false; savedZone[i] = -1; savedKind[i] = K_EMPTY; }
  }
  void line(const std::string& s) { tr.lines.push_back(s); }

  int pickZone(bool ext) {
    int full = ext ? zonedbx::kZoneRegistrySize : zonedb::kZoneRegistrySize;
    if (rng.chance(3, 10)) {
      // bias to zones with several eras (rule changes inside 2000..2050)
      for (int tries = 0; tries < 20; tries++) {
        int z = (int)rng.below(full);
        int ne = ext ? extended::ZoneInfoBroker(zonedbx::kZoneRegistry[z]).numEras()
                     : basic::ZoneInfoBroker(zonedb::kZoneRegistry[z]).numEras();
        if (ne >= 3) return z;
      }
    }
    return (int)rng.below(full);
  }
  uint8_t drawPoison() {
    static const uint8_t k[] = {0x00, 0xff, 0xa5, 0x5a, 0x01, 0x80};
    return rng.chance(1, 4) ? (uint8_t)rng.below(256) : k[rng.below(6)];
  }

  void setupProcsAndMgrs() {
    int nb = (int)rng.range(1, 2), nx = (int)rng.range(1, 2);
    for (int i = 0; i < nb; i++) { line(fmt("PROC b %d", i)); haveB[i] = true; }
    for (int i = 0; i < nx; i++) { line(fmt("PROC x %d", i)); haveX[i] = true; }
    mgrLine(false, -1, false);
    mgrLine(true, -1, false);
  }
  // registry: full, or a seeded subset that does / does not contain a given zone
  void mgrLine(bool ext, int mustHave, bool mustLack) {
    int size = (int)rng.range(1, 4);
    std::string l = fmt("MGR %s size=%d", ext ? "x" : "b", size);
    if (mix.restore && rng.chance(1, 2)) {
      int n = (int)rng.range(0, 40);
      l += fmt(" reg=sub seed=%llu n=%d order=%s", (unsigned long long)rng.below(1000000), n,
          rng.chance(1, 2) ? "sorted" : "shuffled");
      std::string with;
      const std::vector<int>& zs = ext ? xz : bz;
      for (size_t i = 0; i < zs.size(); i++) if (rng.chance(2, 3) && !(mustLack && zs[i] == mustHave)) with += fmt("%s%d", with.empty() ? "" : ",", zs[i]);
      if (mustHave >= 0 && !mustLack) with += fmt("%s%d", with.empty() ? "" : ",", mustHave);
      if (!with.empty()) l += " with=" + with;
      if (mustLack && mustHave >= 0) l += fmt(" without=%d", mustHave);
    } else {
      l += " reg=full";
    }
    line(l);
    (ext ? haveXm : haveBm) = true;
    for (int i = 0; i < kMaxClients; i++) if (ckind[i] == (ext ? K_XMGR : K_BMGR)) ckind[i] = K_EMPTY;
  }

  std::string drawName(bool ext) {
    int full = ext ? zonedbx::kZoneRegistrySize : zonedb::kZoneRegistrySize;
    std::string n = zoneName(ext ? K_XMGR : K_BMGR, shippedZone(ext, (long)rng.below(full)));
    switch (rng.below(9)) {
      case 0: case 1: case 2: return n;                                   // present (in the full registry)
      case 3: return n.substr(0, n.size() - 1);                           // absent: truncated
      case 4: return n + "x";                                             // absent: extended
      case 5: n[rng.below(n.size())] = (char)('A' + rng.below(26)); return n;   // usually absent: one letter changed
      case 6: return rng.chance(1, 2) ? "A" : "Zzz";                      // before the first / after the last entry
      case 7: return "EMPTY";
      default: return "America/NotFound";
    }
  }

  void makeClient(int slot) {
    if (rng.chance(1, mix.extremes ? 7 : 9)) {
      bool ext = rng.chance(1, 2);
      std::string nm;
      if (mix.extremes && rng.chance(1, 2)) nm = drawName(ext);   // absent / misspelt names: device profile only
      else {
        // a name of one of this run's zones (they are in the run's sub-registries), so that consecutive lookups
        // through the one line buffer concern different zones of the same manager
        const std::vector<int>& zs = ext ? xz : bz;
        nm = zoneName(ext ? K_XMGR : K_BMGR, shippedZone(ext, zs[rng.below(zs.size())]));
      }
      line(fmt("TZ %d %s %s buf=%s", slot, ext ? "xname" : "bname", nm.c_str(), rng.chance(2, 3) ? "reuse" : "heap"));
      ckind[slot] = ext ? K_XMGR : K_BMGR; czone[slot] = -1;
      return;
    }
    unsigned r = (unsigned)rng.below(100);
    if (mix.restore && r < 22) {
      if (r < 14) {
        static const int grid[] = {0, 60, -60, 330, -210, 345, 765, -720, 840, 960, -960, 1, -1, 7, 59, -481, 1439, -1439};
        int sm = rng.chance(3, 4) ? grid[rng.below(18)] : (int)rng.range(-960, 960);
        int dm = rng.chance(1, 2) ? 0 : (rng.chance(2, 3) ? 60 : (int)rng.range(-120, 120));
        if (haveManual && rng.chance(1, 4)) {
          // same sum as an earlier manual zone, different components (and the sum-zero case): equality must tell them apart
          int k = rng.chance(1, 3) ? lastStd + lastDst : (int)rng.range(1, 90);
          sm = lastStd + lastDst - k; dm = k;
          if (rng.chance(1, 5)) { sm = (int)rng.range(1, 600); dm = -sm; }
        }
        if (rng.chance(1, 9)) {
          // the boundaries of the stored int16 fields (-32768 is also TimeOffset's own error value: as a component
          // of a manual zone it is data like any other and must come back); sums stay inside int16
          static const int bnd[][2] = {{-32768, 0}, {0, -32768}, {-32768, 60}, {-32767, 0}, {32767, 0}, {0, 32767},
              {32767, -60}, {-32768, 32767}, {32767, -32768}, {-16384, -16384}, {16383, 16384}, {256, -256}, {-1, -32767}};
          int k = (int)rng.below(13);
          sm = bnd[k][0]; dm = bnd[k][1];
        }
        haveManual = true; lastStd = sm; lastDst = dm;
        line(fmt("TZ %d manual %d %d", slot, sm, dm)); ckind[slot] = K_MANUAL;
      } else if (r < 17) { line(fmt("TZ %d utc", slot)); ckind[slot] = K_MANUAL; }
      else { line(fmt("TZ %d error", slot)); ckind[slot] = K_ERROR; }
      czone[slot] = -1;
      return;
    }
    if (r < 30 || (r < 60 && !mix.restore)) {
      // direct-bound on a shared processor
      bool ext = rng.chance(1, 2);
      int p = (int)rng.below(2);
      if (!(ext ? haveX[p] : haveB[p])) p = 0;
      int z = (ext ? xz : bz)[rng.below((ext ? xz : bz).size())];
      line(fmt("TZ %d %s %d proc=%d # %s", slot, ext ? "xdirect" : "bdirect", z, p, zoneName(ext ? K_XDIRECT : K_BDIRECT, shippedZone(ext, z))));
      ckind[slot] = ext ? K_XDIRECT : K_BDIRECT; czone[slot] = z;
    } else if (r < 90) {
      bool ext = rng.chance(1, 2);
      int z = (ext ? xz : bz)[rng.below((ext ? xz : bz).size())];
      unsigned h = (unsigned)rng.below(10);
      if (h == 5) {
        // createForZoneIndex: an index into whatever registry the manager was given (small indices also hit subsets)
        int full = ext ? zonedbx::kZoneRegistrySize : zonedb::kZoneRegistrySize;
        int k = rng.chance(1, 2) ? (int)rng.below(6) : (int)rng.below((uint64_t)full);
        line(fmt("TZ %d %s %d # by index", slot, ext ? "xmgri" : "bmgri", k));
        ckind[slot] = ext ? K_XMGR : K_BMGR; czone[slot] = -1;
        return;
      }
      const char* how = h < 6 ? (ext ? "xmgr" : "bmgr") : (h < 8 ? (ext ? "xmgrid" : "bmgrid") : (ext ? "xdata" : "bdata"));
      line(fmt("TZ %d %s %d # %s", slot, how, z, zoneName(ext ? K_XMGR : K_BMGR, shippedZone(ext, z))));
      ckind[slot] = ext ? K_XMGR : K_BMGR; czone[slot] = z;
    } else {
      int o = (int)rng.below(kMaxClients);
      if (ckind[o] == K_EMPTY) { makeClient(slot); return; }
      line(fmt("TZ %d copy %d", slot, o));
      ckind[slot] = ckind[o]; czone[slot] = czone[o];
    }
  }

  int64_t drawEpoch(bool& oor) {
    oor = false;
    unsigned r = (unsigned)rng.below(100);
    int64_t e;
    if (r < 45) {        // any second of 1999..2050
      e = rng.range(epochOfYearStart(1999), epochOfYearStart(2051) - 1);
    } else if (r < 60) { // around a year boundary (the basic processor keys 1 Jan under the previous year)
      int y = (int)rng.range(1999, 2051);
      e = epochOfYearStart(y) + rng.range(-2 * 86400, 2 * 86400);
    } else if (r < 72) { // the last argument +/- about one year
      e = lastE + (rng.chance(1, 2) ? 1 : -1) * rng.range(360 * 86400, 370 * 86400);
    } else if (r < 78) { // same year as before, another instant
      e = epochOfYearStart(lastY) + rng.range(0, 365 * 86400 - 1);
    } else if (r < 84) { // boundary years of the zone data
      static const int ys[] = {1997, 1998, 1999, 2000, 2049, 2050, 2051, 2052};
      e = epochOfYearStart(ys[rng.below(8)]) + rng.range(0, 365 * 86400 - 1);
      oor = true;
    } else if (r < 96) { // far outside the zone data
      if (rng.chance(1, 2)) e = rng.range(epochOfYearStart(1932), epochOfYearStart(1998) - 1);
      else e = rng.range(epochOfYearStart(2052), epochOfYearStart(2068) - 86400 * 30);
      oor = true;
    } else {
      e = LocalDate::kInvalidEpochSeconds; oor = true;
    }
    if (mix.extremes && rng.chance(1, 12)) {
      static const int64_t ex[] = {-2147483647LL, -2147483646LL, 2147483647LL, 2147483646LL, -2147483647LL + 1966080,
          -2147483647LL + 1966079, 2147483647LL - 50400, -2145916800LL, 2145916799LL};
      e = ex[rng.below(9)]; oor = true;
    }
    if (e < -2147483647LL + (mix.extremes ? 0 : 2000000)) e = -2147483647LL + 2000000;
    if (e > 2147483647LL - (mix.extremes ? 0 : 100000)) e = 2147483647LL - 100000;
    if (e != LocalDate::kInvalidEpochSeconds) { lastE = e; lastY = yearOfEpoch(e); }
    return e;
  }

  std::string drawQuery(bool& oor) {
    unsigned k = (unsigned)rng.below(100);
    oor = false;
    if (k < 20) return fmt("utc %lld", (long long)drawEpoch(oor));
    if (k < 34) return fmt("delta %lld", (long long)drawEpoch(oor));
    if (k < 50) return fmt("abbrev %lld", (long long)drawEpoch(oor));
    if (k < 62) return fmt("zdt %lld", (long long)drawEpoch(oor));
    if (k < 86) {
      int64_t e = drawEpoch(oor);
      int y, mo, d, h, mi, s;
      if (e == LocalDate::kInvalidEpochSeconds) { y = 0; mo = 0; d = 0; h = 0; mi = 0; s = 0; }
      else {
        civilFromEpoch(e, y, mo, d, h, mi, s);   // the simulator's own conversion: no repository code in the generator
      }
      if (rng.chance(1, 6)) { h = (int)rng.range(0, 3); mi = (int)rng.range(0, 59); }   // around typical gaps / overlaps
      if (rng.chance(1, 14)) {   // invalid components
        switch (rng.below(6)) {
          case 0: mo = 0; break; case 1: mo = 13; break; case 2: d = 0; break; case 3: d = 32; break;
          case 4: h = 24 + (int)rng.below(8); break; default: mi = 60 + (int)rng.below(8); break;
        }
        oor = true;
      }
      if (mix.extremes && rng.chance(1, 16)) { y = rng.chance(1, 2) ? (int)rng.range(1873, 1931) : (int)rng.range(2069, 2127); oor = true; }
      return fmt("%s %d %d %d %d %d %d", rng.chance(1, 2) ? "odt" : "zdc", y, mo, d, h, mi, s);
    }
    if (mix.extremes && k < 90) {
      if (rng.chance(1, 2)) return fmt("zops %lld", (long long)drawEpoch(oor));
      int64_t e = drawEpoch(oor);
      int y = 0, mo = 0, d = 0, h = 0, mi = 0, s = 0;
      if (e != LocalDate::kInvalidEpochSeconds) civilFromEpoch(e, y, mo, d, h, mi, s);
      return fmt("zopc %d %d %d %d %d %d", y, mo, d, h, mi, s);
    }
    if (k < 92) return "print";
    if (k < 97) return "prints";
    return "zid";
  }

  // a console line: well-formed, cut short at any length, garbled in one character, or with something appended
  std::string drawParse() {
    static const char* kinds[] = {"ld", "lt", "ldt", "odt", "zdt", "off"};
    const char* kind = kinds[rng.below(6)];
    std::string date = fmt("%04d-%02d-%02d", (int)rng.range(1990, 2060), (int)rng.range(1, 12), (int)rng.range(1, 28));
    std::string time = fmt("%02d:%02d:%02d", (int)rng.range(0, 23), (int)rng.range(0, 59), (int)rng.range(0, 59));
    std::string off = fmt("%c%02d:%02d", rng.chance(1, 2) ? '+' : '-', (int)rng.range(0, 14), (int)(15 * rng.below(4)));
    std::string k = kind, sline;
    if (k == "ld") sline = date; else if (k == "lt") sline = time; else if (k == "ldt") sline = date + "T" + time;
    else if (k == "off") sline = off; else sline = date + "T" + time + off;
    unsigned m = (unsigned)rng.below(100);
    if (m < 35) {
    } else if (m < 65) {
      sline = sline.substr(0, (size_t)rng.below(sline.size() + 1));                       // cut short
    } else if (m < 80) {
      if (!sline.empty()) {
        static const char junk[] = "Z+-:T /0x9a";
        size_t at = (size_t)rng.below(sline.size());
        sline[at] = rng.chance(1, 2) ? junk[rng.below(sizeof junk - 1)] : (char)rng.range(1, 255);   // garbled
      }
    } else if (m < 90) {
      sline += rng.chance(1, 2) ? "Z" : "[UTC]";                                       // something appended
    } else {
      sline = sline.substr(0, (size_t)rng.below(sline.size() + 1)) + (rng.chance(1, 2) ? "Z" : "+");  // cut short, then a suffix
    }
    std::string hex;
    for (size_t i = 0; i < sline.size(); i++) hex += fmt("%02x", (unsigned)(uint8_t)sline[i]);
    if (hex.empty()) hex = "00";
    return fmt("PARSE %s %s", kind, hex.c_str());
  }

  int liveClient() {
    for (int tries = 0; tries < 16; tries++) { int c = (int)rng.below(kMaxClients); if (ckind[c] != K_EMPTY) return c; }
    return 0;
  }

  Trace run(const std::string& profile) {
    tr.profile = profile;
    line(fmt("CFG TZ poison=%u decoyfirst=%d", (unsigned)drawPoison(), rng.chance(1, 4) ? 1 : 0));
    if (mix.clock) {
      static const uint32_t kSync[] = {5, 60, 3600};
      line(fmt("CFG CLOCK sync=%u init=%u tmo=%u ref=%s bak=1 boot=%llu refbase=%lld rtc=%lld", kSync[rng.below(3)],
          (unsigned)rng.range(1, 5), (unsigned)(rng.chance(1, 2) ? 1000 : 50), rng.chance(1, 5) ? "none" : (rng.chance(1, 3) ? "same" : "distinct"),
          (unsigned long long)(rng.chance(1, 2) ? 0xffffffffULL - rng.below(100000) : rng.below(0x100000000ULL)),
          (long long)(rng.chance(1, 4) ? (int64_t)rng.range(-2000000000, 2000000000) : (int64_t)rng.range(0, 1500000000)),
          (long long)rng.range(0, 1500000000)));
      for (int k = 0; k < 12; k++) {
        unsigned w = (unsigned)rng.below(10);
        if (w < 5) line(fmt("REF %d VALID lat=%lld val=%lld", k, (long long)rng.range(0, 900), (long long)rng.range(-3, 3)));
        else if (w < 7) line(fmt("REF %d INVALID lat=%lld", k, (long long)rng.range(0, 900)));
        else if (w < 9) line(fmt("REF %d LOST", k));
        else line(fmt("REF %d ABS lat=5 val=%lld", k, (long long)rng.range(-2000000000, 2000000000)));
      }
    }
    int nz = (int)rng.range(1, 3);
    for (int i = 0; i < nz; i++) { bz.push_back(pickZone(false)); xz.push_back(pickZone(true)); }
    setupProcsAndMgrs();
    int nc = (int)rng.range(2, 6);
    for (int i = 0; i < nc; i++) makeClient(i);
    int n = (int)rng.range(5, rng.chance(1, 4) ? 400 : 70);
    bool faultFree = rng.chance(3, 10);   // no out-of-range queries at all in these runs
    int wTot = mix.wQuery + mix.wRepeat + mix.wSetup + mix.wSave + mix.wRestore + mix.wReboot + mix.wManset + mix.wClock;
    for (int i = 0; i < n; i++) {
      int w = (int)rng.below(wTot);
      if (!mix.restore || mix.extremes) {
        if (rng.chance(1, 16)) line(fmt("KEEP %d %lld", liveClient(), (long long)rng.range(epochOfYearStart(2000), epochOfYearStart(2050) - 1)));
        else if (rng.chance(1, 10)) line(fmt("USE %d", (int)rng.below(kMaxClients)));
      }
      if (w < mix.wQuery && !recent.empty() && rng.chance(1, 7)) {
        // ask an EARLIER query of this run again (identical argument), after whatever happened in between:
        // a memo keyed on the argument, or state that survives a refill by another entry point, only
        // shows when the very same question comes back
        const std::pair<int, std::string>& old = recent[rng.below(recent.size())];
        line(fmt("Q %d %s", rng.chance(2, 3) ? old.first : liveClient(), old.second.c_str()));
      } else if (w < mix.wQuery) {
        bool oor = false;
        std::string q;
        for (int tries = 0; tries < 8; tries++) { q = drawQuery(oor); if (!(faultFree && oor)) break; }
        if (faultFree && oor) continue;
        int c = liveClient();
        line(fmt("Q %d %s", c, q.c_str()));
        if (recent.size() < 8) recent.push_back(std::make_pair(c, q));
        else recent[rng.below(8)] = std::make_pair(c, q);
        if (oor) {
          // failing queries are repeated back to back and interleaved with valid ones on the same processor
          int reps = (int)rng.range(0, 3);
          for (int k = 0; k < reps; k++) line(fmt("QR %d", rng.chance(3, 4) ? c : liveClient()));
          if (rng.chance(1, 2)) {
            // ... then a valid query for the nearest year inside the zone data on the same client (so the
            // cache now holds a neighbouring year), then the identical failing query once more
            int ny = lastY > 2050 ? 2050 : (lastY < 1999 ? (int)rng.range(1999, 2000) : lastY);
            if (rng.chance(1, 4)) ny = (int)rng.range(2000, 2049);
            static const char* ks[] = {"utc", "delta", "abbrev", "zdt"};
            line(fmt("Q %d %s %lld", c, ks[rng.below(4)],
                (long long)(epochOfYearStart(ny) + rng.range(2 * 86400, 364 * 86400))));
            line(fmt("Q %d %s", rng.chance(3, 4) ? c : liveClient(), q.c_str()));
          }
        }
      } else if ((w -= mix.wQuery) < mix.wRepeat) {
        line(fmt("QR %d", liveClient()));
      } else if ((w -= mix.wRepeat) < mix.wSetup) {
        unsigned r = (unsigned)rng.below(10);
        if (r < 6) makeClient((int)rng.below(kMaxClients));
        else if (r < 7) { int p = (int)rng.below(2); line(fmt("PROC %s %d", rng.chance(1, 2) ? "x" : "b", p)); /* clients of that processor are dropped */
          for (int c = 0; c < kMaxClients; c++) if (ckind[c] == K_BDIRECT || ckind[c] == K_XDIRECT) { /* generator keeps them; ops on dropped slots are no-ops */ } }
        else if (r < 9) mgrLine(rng.chance(1, 2), -1, false);
        else { bool ext = rng.chance(1, 2); (ext ? xz : bz).push_back(pickZone(ext)); }
      } else if ((w -= mix.wSetup) < mix.wSave) {
        int c = liveClient(), k = (int)rng.below(kMaxStore);
        line(fmt("SAVE %d %d", c, k));
        saved[k] = true; savedZone[k] = czone[c]; savedKind[k] = ckind[c];
        if (rng.chance(1, 2)) {
          // reboots are biased to land between SAVE and RESTORE
          line(fmt("REBOOT poison=%u", (unsigned)drawPoison()));
          rebootAndRebuild(k);
        }
      } else if ((w -= mix.wSave) < mix.wRestore) {
        int k = (int)rng.below(kMaxStore);
        if (mix.extremes && rng.chance(1, 4)) {
          // device profile only: corrupt one stored byte before the restore
          line(fmt("TEAR %d %d %d", k, (int)rng.below(5), (int)(rng.chance(1, 3) ? rng.below(4) : rng.below(256))));
        }
        bool ext = rng.chance(1, 2);
        if (saved[k] && isBasic(savedKind[k]) && rng.chance(2, 3)) ext = false;   // basic ids are a subset of extended ids
        if (saved[k] && isExt(savedKind[k]) && rng.chance(2, 3)) ext = true;
        bool oor;
        int slot = (int)rng.below(kMaxClients);
        // the comparison burst stays inside the zone data: out-of-range arguments are C08/C09's subject
        (void)oor;
        line(fmt("RESTORE %d %d via=%s e=%lld e2=%lld", k, slot, ext ? "x" : "b",
            (long long)rng.range(epochOfYearStart(2000), epochOfYearStart(2050) - 1),
            (long long)rng.range(epochOfYearStart(2000), epochOfYearStart(2050) - 1)));
        if (saved[k]) { ckind[slot] = isZone(savedKind[k]) ? (ext ? K_XMGR : K_BMGR) : savedKind[k]; czone[slot] = -1; }
      } else if ((w -= mix.wRestore) < mix.wReboot) {
        line(fmt("REBOOT poison=%u", (unsigned)drawPoison()));
        rebootAndRebuild(-1);
      } else if ((w -= mix.wReboot) < mix.wManset) {
        static const int mb[] = {-32768, -32767, 32767, 16384, -16384};
        line(fmt("MANSET %d %s %d", liveClient(), rng.chance(1, 2) ? "std" : "dst",
            rng.chance(1, 10) ? mb[rng.below(5)] : (int)rng.range(-960, 960)));
      } else {
        unsigned r = (unsigned)rng.below(100);
        if (rng.chance(1, 8)) line(drawParse());
        else if (r < 30) line("LOOP");
        else if (r < 50) line(fmt("ADV %lld", (long long)(rng.chance(1, 2) ? rng.range(1, 1500) : rng.range(1000, 70000))));
        else if (r < 60) line("GET");
        else if (r < 70) line(fmt("SET %lld", (long long)(rng.chance(1, 6) ? (int64_t)kInvalid : (rng.chance(1, 3) ? (int64_t)rng.range(-2147483647LL + 20000000, 2147483647LL - 20000000) : (int64_t)rng.range(0, 1600000000)))));
        else if (r < 75) line("SETUP");
        else if (r < 80) line(fmt("ADVDL %d", (int)rng.range(-1, 1)));
        else {
          static const char* ks[] = {"utc", "delta", "abbrev", "zdt"};
          line(fmt("QN %d %s", liveClient(), ks[rng.below(4)]));
        }
      }
    }
    return tr;
  }

  void rebootAndRebuild(int savedSlot) {
    for (int i = 0; i < kMaxProcs; i++) haveB[i] = haveX[i] = false;
    for (int i = 0; i < kMaxClients; i++) { ckind[i] = K_EMPTY; czone[i] = -1; }
    haveBm = haveXm = false;
    int nb = (int)rng.range(1, 2), nx = (int)rng.range(1, 2);
    for (int i = 0; i < nb; i++) { line(fmt("PROC b %d", i)); haveB[i] = true; }
    for (int i = 0; i < nx; i++) { line(fmt("PROC x %d", i)); haveX[i] = true; }
    // the registry after the reboot does / does not contain the saved id (fault registry_changed)
    int must = -1; bool lack = false, sext = false;
    if (savedSlot >= 0 && isZone(savedKind[savedSlot])) {
      must = savedZone[savedSlot]; sext = isExt(savedKind[savedSlot]); lack = rng.chance(1, 3);
    }
    mgrLine(false, !sext ? must : -1, !sext && lack);
    mgrLine(true, sext ? must : -1, sext && lack);
    int nc = (int)rng.range(0, 4);
    for (int i = 0; i < nc; i++) makeClient(i);
    if (mix.clock && rng.chance(2, 3)) line("SETUP");
  }
};

}  // namespace

Trace genTz(const std::string& profile, uint64_t seed) {
  Gen g(seed);
  if (profile == "tz-history") {
    g.mix.wQuery = 82; g.mix.wRepeat = 10; g.mix.wSetup = 8;
  } else if (profile == "tz-restore") {
    g.mix.restore = true;
    g.mix.wQuery = 40; g.mix.wRepeat = 4; g.mix.wSetup = 12; g.mix.wSave = 16; g.mix.wRestore = 18; g.mix.wReboot = 4; g.mix.wManset = 6;
  } else {
    g.mix.restore = true; g.mix.clock = true; g.mix.extremes = true;
    g.mix.wQuery = 50; g.mix.wRepeat = 10; g.mix.wSetup = 8; g.mix.wSave = 5; g.mix.wRestore = 6; g.mix.wReboot = 3; g.mix.wManset = 2; g.mix.wClock = 16;
  }
  return g.run(profile);
}


// --- sweep08: bounded exhaustive supplement for C08 (both tiers; also in the sanitizer build in the thorough tier), reported apart from the seeded search.
// Family 1: for every shipped zone (both databases) one direct client on one processor walks every ORDERED PAIR
//   (a, b) of cached-year states: a question about state a, then four questions (utc, delta, abbrev, zdc) about
//   state b, each compared with what a fresh poison-built processor answered to it. States: 1 Jan 00:00, day 90,
//   2 Jul 12:00 and day 304 of every year 1998..2052, plus far below, far above and the error sentinel.
// Family 2: the same with TWO zones (the zone and its registry successor) bound alternately to ONE processor,
//   over every ordered pair of mid-year states.
// A disagreement is printed as a trace in the simulator's own language (first the two-question form if that
// already disagrees, else the whole walk of that zone up to the disagreement) and goes through the normal triage.
namespace {

struct SweepState { int64_t e; bool sentinel; };

static std::vector<SweepState> sweepStates(bool coarse) {
  std::vector<SweepState> s;
  for (int y = 1998; y <= 2052; y++) {
    if (!coarse) s.push_back(SweepState{epochOfYearStart(y), false});
    if (!coarse) s.push_back(SweepState{epochOfYearStart(y) + (int64_t)90 * 86400, false});
    s.push_back(SweepState{epochOfYearStart(y) + (int64_t)182 * 86400 + 12 * 3600, false});
    if (!coarse) s.push_back(SweepState{epochOfYearStart(y) + (int64_t)304 * 86400, false});
  }
  s.push_back(SweepState{epochOfYearStart(1950) + 1000000, false});
  s.push_back(SweepState{epochOfYearStart(2060) + 1000000, false});
  s.push_back(SweepState{0, true});
  return s;
}

static const char* const kSweepKinds[4] = {"utc", "delta", "abbrev", "zdc"};

static Query sweepQuery(const SweepState& st, int k) {
  Query q; q.kind = kSweepKinds[k];
  if (st.sentinel) {
    q.e = LocalDate::kInvalidEpochSeconds; q.y = 0; q.mo = 0; q.d = 0; q.h = 0; q.mi = 0; q.s = 0;
  } else {
    q.e = st.e; civilFromEpoch(st.e, q.y, q.mo, q.d, q.h, q.mi, q.s);
  }
  return q;
}

static std::string sweepQueryText(int client, const Query& q) {
  if (q.byComponents()) return fmt("Q %d %s %d %d %d %d %d %d", client, q.kind.c_str(), q.y, q.mo, q.d, q.h, q.mi, q.s);
  return fmt("Q %d %s %lld", client, q.kind.c_str(), (long long)q.e);
}

static Ans sweepFresh(bool ext, const void* zi, const Query& q, uint8_t pz) {
  Storage st;
  if (ext) {
    ExtendedZoneProcessor* p = new (st.fresh(sizeof(ExtendedZoneProcessor), pz)) ExtendedZoneProcessor((const extended::ZoneInfo*)zi);
    return ask(TimeZone::forZoneInfo((const extended::ZoneInfo*)zi, p), q);
  }
  BasicZoneProcessor* p = new (st.fresh(sizeof(BasicZoneProcessor), pz)) BasicZoneProcessor((const basic::ZoneInfo*)zi);
  return ask(TimeZone::forZoneInfo((const basic::ZoneInfo*)zi, p), q);
}

static std::string escapeTrace(const std::string& t) {
  std::string o;
  for (size_t i = 0; i < t.size(); i++) { if (t[i] == '\n') o += "\\n"; else o += t[i]; }
  return o;
}

struct SweepWalk {
  bool ext;
  const void* zi[2];
  int idx[2];
  Storage st;
  BasicZoneProcessor* bp = nullptr;
  ExtendedZoneProcessor* xp = nullptr;
  std::string history;     // the walk so far, as trace lines
  bool keepHistory = true;
  unsigned poisonByte = 0;
  void build(uint8_t poison) {
    poisonByte = poison;
    if (ext) xp = new (st.fresh(sizeof(ExtendedZoneProcessor), poison)) ExtendedZoneProcessor();
    else bp = new (st.fresh(sizeof(BasicZoneProcessor), poison)) BasicZoneProcessor();
  }
  TimeZone tz(int c) const {
    return ext ? TimeZone::forZoneInfo((const extended::ZoneInfo*)zi[c], xp) : TimeZone::forZoneInfo((const basic::ZoneInfo*)zi[c], bp);
  }
  std::string header(int clients) const {
    std::string h = fmt("PROFILE tz-history\nCFG TZ poison=%u decoyfirst=0\n", poisonByte);
    h += fmt("PROC %s 0\n", ext ? "x" : "b");
    for (int c = 0; c < clients; c++) h += fmt("TZ %d %s %d proc=0\n", c, ext ? "xdirect" : "bdirect", idx[c]);
    return h;
  }
  Ans step(int c, const Query& q) {
    if (keepHistory) { history += sweepQueryText(c, q); history += "\n"; }
    return ask(tz(c), q);
  }
};

}  // namespace

int sweepTzPairs(unsigned job, unsigned jobs, unsigned stride, int onlyDb, int onlyZone) {
  if (!jobs) jobs = 1;
  if (!stride) stride = 1;
  uint64_t pairs = 0, zones = 0, checks = 0;
  const std::vector<SweepState> S1 = sweepStates(false), S2 = sweepStates(true);
  unsigned counter = 0;
  for (int db = 0; db < 2; db++) {
    const bool ext = db == 1;
    const int full = ext ? zonedbx::kZoneRegistrySize : zonedb::kZoneRegistrySize;
    for (int z = 0; z < full; z += (int)stride) {
      if (onlyDb >= 0) { if (db != onlyDb || z != onlyZone) continue; }
      else if ((counter++ % jobs) != job) continue;
      zones++;
      printf("SWEEP08ZONE %c %d\n", ext ? 'x' : 'b', z);   // so that a crash inside the walk names its zone
      fflush(stdout);
      const void* zi = ext ? (const void*)zonedbx::kZoneRegistry[z] : (const void*)zonedb::kZoneRegistry[z];
      const int z2 = (z + 1) % full;
      const void* zi2 = ext ? (const void*)zonedbx::kZoneRegistry[z2] : (const void*)zonedb::kZoneRegistry[z2];
      // reference tables from fresh processors (two poison fills must agree, else the reference is undefined)
      std::vector<Ans> T1(S1.size() * 4), T2a(S2.size() * 4), T2b(S2.size() * 4);
      for (size_t i = 0; i < S1.size(); i++) for (int k = 0; k < 4; k++) {
        Query q = sweepQuery(S1[i], k);
        T1[i * 4 + k] = sweepFresh(ext, zi, q, 0x00);
        Ans other = sweepFresh(ext, zi, q, 0xA5);
        if (!equalAns(T1[i * 4 + k], other)) {
          SweepWalk w; w.ext = ext; w.zi[0] = zi; w.idx[0] = z;
          printf("SWEEP08VIOL %s\n", escapeTrace(w.header(1) + sweepQueryText(0, q) + "\n").c_str());
          printf("SWEEP08 zones=%llu pairs=%llu checks=%llu\n", (unsigned long long)zones, (unsigned long long)pairs, (unsigned long long)checks);
          return 0;
        }
      }
      for (size_t i = 0; i < S2.size(); i++) for (int k = 0; k < 4; k++) {
        Query q = sweepQuery(S2[i], k);
        T2a[i * 4 + k] = sweepFresh(ext, zi, q, 0x5A);
        T2b[i * 4 + k] = sweepFresh(ext, zi2, q, 0x5A);
      }
      // family 1
      {
        SweepWalk w; w.ext = ext; w.zi[0] = zi; w.idx[0] = z; w.build(0xCD);
        for (size_t a = 0; a < S1.size(); a++) for (size_t b = 0; b < S1.size(); b++) {
          Query qa = sweepQuery(S1[a], (int)(b % 4));
          Ans ra = w.step(0, qa);
          bool bad = !equalAns(ra, T1[a * 4 + b % 4]);
          Query qbad = qa; 
          for (int k = 0; k < 4 && !bad; k++) {
            Query qb = sweepQuery(S1[b], k);
            Ans rb = w.step(0, qb);
            checks++;
            if (!equalAns(rb, T1[b * 4 + k])) { bad = true; qbad = qb; }
          }
          pairs++;
          if (bad) {
            // the two-question form first
            SweepWalk s; s.ext = ext; s.zi[0] = zi; s.idx[0] = z; s.build(0xCD);
            Ans r1 = s.step(0, qa);
            std::string shortTrace;
            if (!equalAns(r1, T1[a * 4 + b % 4])) shortTrace = s.header(1) + s.history;
            else {
              Ans r2 = s.step(0, qbad);
              if (!equalAns(r2, sweepFresh(ext, zi, qbad, 0x00))) shortTrace = s.header(1) + s.history;
            }
            printf("SWEEP08VIOL %s\n", escapeTrace(shortTrace.empty() ? w.header(1) + w.history : shortTrace).c_str());
            printf("SWEEP08 zones=%llu pairs=%llu checks=%llu\n", (unsigned long long)zones, (unsigned long long)pairs, (unsigned long long)checks);
            return 0;
          }
        }
      }
      // family 2
      {
        SweepWalk w; w.ext = ext; w.zi[0] = zi; w.zi[1] = zi2; w.idx[0] = z; w.idx[1] = z2; w.build(0x3E);
        for (size_t a = 0; a < S2.size(); a++) for (size_t b = 0; b < S2.size(); b++) {
          int ka = (int)((a + b) % 4), kb = (int)((a + 3 * b + 1) % 4);
          Query qa = sweepQuery(S2[a], ka), qb = sweepQuery(S2[b], kb);
          Ans ra = w.step(0, qa);
          Ans rb = w.step(1, qb);
          checks += 2; pairs++;
          if (!equalAns(ra, T2a[a * 4 + ka]) || !equalAns(rb, T2b[b * 4 + kb])) {
            printf("SWEEP08VIOL %s\n", escapeTrace(w.header(2) + w.history).c_str());
            printf("SWEEP08 zones=%llu pairs=%llu checks=%llu\n", (unsigned long long)zones, (unsigned long long)pairs, (unsigned long long)checks);
            return 0;
          }
        }
      }
    }
  }
  printf("SWEEP08 zones=%llu pairs=%llu checks=%llu\n", (unsigned long long)zones, (unsigned long long)pairs, (unsigned long long)checks);
  return 0;
}

}  // namespace sim
