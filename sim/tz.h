#ifndef VERIF_SIM_TZ_H
#define VERIF_SIM_TZ_H
#include "common.h"
#include "profiles.h"
namespace sim {
Trace genTz(const std::string& profile, uint64_t seed);
bool execTz(const Trace& tr, Verdict& v, Coverage& cov, bool& nontrivial, Bitmap* bm);
}
#endif
