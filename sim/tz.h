#ifndef VERIF_SIM_TZ_H
#define VERIF_SIM_TZ_H
#include "common.h"
#include "profiles.h"
namespace sim {
Trace genTz(const std::string& profile, uint64_t seed);
bool execTz(const Trace& tr, Verdict& v, Coverage& cov, bool& nontrivial, Bitmap* bm);
// Pristine reference process for the fresh oracle (see tz.cpp). Call once, before anything else has run.
void pristineInit();
// Batch mode: a delegate that executes a whole run in a process with no history, exactly as `replay` would
// (its own pristine reference included), so that what it reports reproduces as a single trace.
void delegateInit();
bool delegateRequest(const Trace& tr);
bool delegateResponse(Verdict& v);
// Bounded exhaustive supplement for C08: every ordered pair of cached-year states, per zone (see tz.cpp).
int sweepTzPairs(unsigned job, unsigned jobs, unsigned stride, int onlyDb = -1, int onlyZone = -1);
}
#endif
