// simdev: gen | replay | batch. See /verif/DESIGN.md §3.
#include "common.h"
#include "profiles.h"
#include "clock.h"
#include "tz.h"
#include <unistd.h>
#include <fcntl.h>
#include <signal.h>
#include <setjmp.h>

using namespace sim;

// In batch mode (never in replay mode) a fatal signal raised while a trace executes is turned
// into a verdict for that run, so that one crashing run does not cost the rest of the batch.
// All device state is rebuilt per run, so nothing corrupted survives. Sanitizer builds keep
// their own handlers: there the process dies and the orchestrator triages the in-flight seed.
static sigjmp_buf g_jmp;
static volatile sig_atomic_t g_armed = 0, g_sig = 0;
static void onFatal(int sig) {
  if (g_armed) { g_sig = sig; g_armed = 0; siglongjmp(g_jmp, 1); }
  signal(sig, SIG_DFL);
  raise(sig);
}
static void installCrashRecovery() {
#if !defined(__has_feature)
#define __has_feature(x) 0
#endif
  struct sigaction sa;
  memset(&sa, 0, sizeof sa);
  sa.sa_handler = onFatal;
  sa.sa_flags = SA_NODEFER;
  // per-run watchdog (both build variants): a run that does not finish within kRunWatchdogSeconds of
  // real time is reported as class "hang" and the batch goes on with the next seed
  sigaction(SIGALRM, &sa, nullptr);
#if !__has_feature(address_sanitizer)
  sigaction(SIGSEGV, &sa, nullptr);
  sigaction(SIGBUS, &sa, nullptr);
  sigaction(SIGFPE, &sa, nullptr);
  sigaction(SIGILL, &sa, nullptr);
#endif
}
static const unsigned kRunWatchdogSeconds = 20;
static const char* sigName(int s) {
  switch (s) { case SIGALRM: return "SIGALRM"; case SIGSEGV: return "SIGSEGV"; case SIGBUS: return "SIGBUS"; case SIGFPE: return "SIGFPE";
    case SIGILL: return "SIGILL"; default: return "SIG?"; }
}

#if defined(__has_feature)
#if __has_feature(address_sanitizer)
#define SIM_SANITIZED 1
#endif
#endif
#ifdef SIM_SANITIZED
extern "C" void __ubsan_get_current_report_data(const char** OutIssueKind, const char** OutMessage,
    const char** OutFilename, unsigned* OutLine, unsigned* OutCol, char** OutMemoryAddr);
extern "C" void __ubsan_on_report(void) {
  const char *kind = "", *msg = "", *file = "";
  unsigned line = 0, col = 0;
  char* addr = nullptr;
  __ubsan_get_current_report_data(&kind, &msg, &file, &line, &col, &addr);
  if (sim::g_ub.pending) return;   // first report of the op wins
  sim::g_ub.pending = true;
  snprintf(sim::g_ub.kind, sizeof sim::g_ub.kind, "%s", kind ? kind : "");
  snprintf(sim::g_ub.msg, sizeof sim::g_ub.msg, "%s", msg ? msg : "");
  snprintf(sim::g_ub.file, sizeof sim::g_ub.file, "%s", file ? file : "");
  sim::g_ub.line = line;
}
#endif

static bool readTraceFile(const char* path, Trace& tr) {
  FILE* f = strcmp(path, "-") == 0 ? stdin : fopen(path, "r");
  if (!f) return false;
  char buf[1024];
  bool first = true;
  while (fgets(buf, sizeof buf, f)) {
    size_t n = strlen(buf);
    while (n && (buf[n - 1] == '\n' || buf[n - 1] == '\r')) buf[--n] = 0;
    if (!n) continue;
    if (first && strncmp(buf, "PROFILE ", 8) == 0) { tr.profile = buf + 8; first = false; continue; }
    first = false;
    tr.lines.push_back(buf);
  }
  if (f != stdin) fclose(f);
  return !tr.profile.empty();
}

static uint64_t fnv(const std::string& s) {
  uint64_t h = 1469598103934665603ULL;
  for (size_t i = 0; i < s.size(); i++) { h ^= (uint8_t)s[i]; h *= 1099511628211ULL; }
  return h;
}

static void printVerdict(const Verdict& v) {
  if (v.violated) {
    printf("RESULT violated class=%s op=%d msg=\"%s\"\n", v.vclass.c_str(), v.opIndex,
        jsonEscape(v.message).c_str());
  } else {
    printf("RESULT ok\n");
  }
  for (size_t i = 0; i < v.notes.size(); i++) printf("NOTE %s\n", v.notes[i].c_str());
}

static std::string statsLine(const Coverage& cov, uint64_t runs, uint64_t nontrivial, uint64_t digest,
    const std::vector<std::string>& samples) {
  std::string o = "STATS {";
  o += fmt("\"runs\":%llu,\"nontrivial\":%llu,\"digest\":\"%016llx\",\"counters\":{",
      (unsigned long long)runs, (unsigned long long)nontrivial, (unsigned long long)digest);
  bool first = true;
  for (std::map<std::string, uint64_t>::const_iterator it = cov.counters.begin(); it != cov.counters.end(); ++it) {
    o += fmt("%s\"%s\":%llu", first ? "" : ",", jsonEscape(it->first).c_str(), (unsigned long long)it->second);
    first = false;
  }
  o += "},\"cells\":{";
  first = true;
  for (std::map<std::string, std::set<std::string> >::const_iterator it = cov.cells.begin(); it != cov.cells.end(); ++it) {
    o += fmt("%s\"%s\":[", first ? "" : ",", jsonEscape(it->first).c_str());
    bool f2 = true;
    for (std::set<std::string>::const_iterator c = it->second.begin(); c != it->second.end(); ++c) {
      o += f2 ? "\"" : ",\"";
      o += jsonEscape(*c);
      o += "\"";
      f2 = false;
    }
    o += "]";
    first = false;
  }
  o += "},\"samples\":[";
  for (size_t i = 0; i < samples.size(); i++) {
    o += i ? ",\"" : "\"";
    o += jsonEscape(samples[i]);
    o += "\"";
  }
  o += "]}";
  return o;
}
static void printStats(const Coverage& cov, uint64_t runs, uint64_t nontrivial, uint64_t digest,
    const std::vector<std::string>& samples) {
  puts(statsLine(cov, runs, nontrivial, digest, samples).c_str());
}
// Snapshot of the coverage so far, so that a run that kills the process does not lose the batch.
static void snapshotStats(const std::string& path, const Coverage& cov, uint64_t runs, uint64_t nontrivial,
    uint64_t digest, const std::vector<std::string>& samples) {
  std::string tmp = path + ".tmp";
  FILE* f = fopen(tmp.c_str(), "w");
  if (!f) return;
  fputs(statsLine(cov, runs, nontrivial, digest, samples).c_str(), f);
  fputc('\n', f);
  fclose(f);
  rename(tmp.c_str(), path.c_str());
}

int main(int argc, char** argv) {
  if (argc < 2) {
    fprintf(stderr, "usage: simdev gen <profile> <seed> | replay <file> | "
        "batch <profile> <verifSeed> <from> <count> <progressFile> [bitmapFile]\n");
    return 2;
  }
  std::string cmd = argv[1];
  if (cmd == "gen" && argc >= 4) {
    Trace tr;
    if (!generate(argv[2], strtoull(argv[3], nullptr, 10), tr)) { fprintf(stderr, "unknown profile\n"); return 2; }
    fputs(tr.text().c_str(), stdout);
    return 0;
  }
  if (cmd == "seed" && argc >= 5) {  // seed <profile> <verifSeed> <runIndex>
    printf("%llu\n", (unsigned long long)deriveSeed(strtoull(argv[3], nullptr, 10), argv[2], strtoull(argv[4], nullptr, 10)));
    return 0;
  }
  if (cmd == "enum14" && argc >= 5) {
    return enumClockSync((unsigned)strtoul(argv[2], nullptr, 10), (unsigned)strtoul(argv[3], nullptr, 10),
        (unsigned)strtoul(argv[4], nullptr, 10));
  }
  if (cmd == "sweep08" && argc >= 5) {
    // optional: <b|x> <zone index> restricts the sweep to one zone (replay of a sweep finding)
    return sweepTzPairs((unsigned)strtoul(argv[2], nullptr, 10), (unsigned)strtoul(argv[3], nullptr, 10),
        (unsigned)strtoul(argv[4], nullptr, 10), argc >= 7 ? (argv[5][0] == 'x' ? 1 : 0) : -1,
        argc >= 7 ? atoi(argv[6]) : -1);
  }
  if (cmd == "sweep13" && argc >= 4) {
    return sweepClockKeep((uint32_t)strtoul(argv[2], nullptr, 10), (uint32_t)strtoul(argv[3], nullptr, 10));
  }
  if (cmd == "replay" && argc >= 3) {
    Trace tr;
    if (!readTraceFile(argv[2], tr)) { fprintf(stderr, "cannot read trace\n"); return 2; }
    if (tr.profile == "tz-history") pristineInit();
    Verdict v; Coverage cov; bool nt = false;
    if (!execute(tr, v, cov, nt, nullptr)) { fprintf(stderr, "unknown profile %s\n", tr.profile.c_str()); return 2; }
    printVerdict(v);
    if (argc >= 4 && strcmp(argv[3], "--stats") == 0) {
      std::vector<std::string> none;
      printStats(cov, 1, nt ? 1 : 0, fnv(tr.text()), none);
    }
    fflush(stdout);
    return v.violated ? 1 : 0;
  }
  if (cmd == "batch" && argc >= 7) {
    const char* profile = argv[2];
    uint64_t verifSeed = strtoull(argv[3], nullptr, 10);
    uint64_t from = strtoull(argv[4], nullptr, 10), count = strtoull(argv[5], nullptr, 10);
    int pfd = open(argv[6], O_WRONLY | O_CREAT, 0644);
    Bitmap* bm = nullptr;
    Bitmap bitmap;
    std::set<std::string> crashNoteOps;   // --crash-note-ops Q,QR: crashes inside these ops are counted, not reported
    for (int a = 7; a < argc; a++) {
      if (strcmp(argv[a], "--crash-note-ops") == 0 && a + 1 < argc) {
        std::string l = argv[++a];
        for (size_t p = 0; p < l.size();) { size_t q = l.find(',', p); if (q == std::string::npos) q = l.size(); crashNoteOps.insert(l.substr(p, q - p)); p = q + 1; }
      } else if (strcmp(argv[a], "--bitmap") == 0 && a + 1 < argc) { bm = &bitmap; bitmap.path = argv[++a]; }
    }
    const bool useDelegate = strcmp(profile, "tz-history") == 0;
    if (useDelegate) { g_pristineEvery = 96; delegateInit(); }
    installCrashRecovery();
    g_ubCollect = true;
    Coverage cov;
    uint64_t runs = 0, nontrivial = 0, digest = 0;
    int reported = 0;
    std::vector<std::string> samples;
    for (uint64_t i = from; i < from + count; i++) {
      uint64_t seed = deriveSeed(verifSeed, profile, i);
      if (runs % 250 == 0 && runs > 0) snapshotStats(std::string(argv[6]) + ".stats", cov, runs, nontrivial, digest, samples);
      if (pfd >= 0) { uint64_t rec[2] = { i, seed }; if (pwrite(pfd, rec, sizeof rec, 0) < 0) {} }
      Trace tr;
      if (!generate(profile, seed, tr)) { fprintf(stderr, "unknown profile\n"); return 2; }
      Verdict v; bool nt = false;
      g_curOp = -1; g_curRun = i; g_curSeed = seed;
      // every n-th run is ALSO executed by the delegate, in a process with no history (exactly what `replay` does)
      const bool delegated = useDelegate && (i % g_pristineEvery == 0) && delegateRequest(tr);
      if (sigsetjmp(g_jmp, 1) == 0) {
        g_armed = 1;
        alarm(kRunWatchdogSeconds);
        execute(tr, v, cov, nt, bm);
        alarm(0);
        g_armed = 0;
      } else {
        alarm(0);
        int op = g_curOp;
        std::string opWord = (op >= 0 && op < (int)tr.lines.size()) ? splitWs(tr.lines[op])[0] : "?";
        if (crashNoteOps.count(opWord)) {
          cov.count("note.crash_in_" + opWord);
        } else {
          if (g_sig == SIGALRM)
            v.fail("hang", std::string("run did not finish within the watchdog while executing: ")
                + ((op >= 0 && op < (int)tr.lines.size()) ? tr.lines[op] : "?"), op);
          else
            v.fail(std::string("crash:") + sigName(g_sig), std::string("process received ") + sigName(g_sig)
                + " while executing: " + ((op >= 0 && op < (int)tr.lines.size()) ? tr.lines[op] : "?"), op);
        }
      }
      if (delegated) {
        Verdict dv;
        if (delegateResponse(dv)) {
          cov.count("c08.runs_also_executed_in_a_pristine_process");
          if (dv.violated && !v.violated) v = dv;
        }
      }
      runs++;
      if (nt) nontrivial++;
      // outcome digest: trace text + verdict, order-sensitive; used by the determinism self-test
      digest = digest * 0x100000001b3ULL ^ fnv(tr.text()) ^ (v.violated ? fnv(v.vclass + v.message) : 0);
      if (samples.size() < 2 && nt && tr.lines.size() < 120) samples.push_back(tr.text());
      if (v.violated) {
        printf("VIOL run=%llu seed=%llu class=%s op=%d msg=\"%s\"\n", (unsigned long long)i,
            (unsigned long long)seed, v.vclass.c_str(), v.opIndex, jsonEscape(v.message).c_str());
        if (++reported >= 3) { i++; break; }
      }
      for (size_t k = 0; k < v.notes.size(); k++) cov.count("note." + v.notes[k]);
    }
    if (pfd >= 0) { uint64_t rec[2] = { ~0ULL, ~0ULL }; if (pwrite(pfd, rec, sizeof rec, 0) < 0) {} close(pfd); }
    printf("NEXT %llu\n", (unsigned long long)(from + runs));
    if (bm) bm->save();
    printStats(cov, runs, nontrivial, digest, samples);
    fflush(stdout);
    return 0;
  }
  fprintf(stderr, "bad arguments\n");
  return 2;
}
