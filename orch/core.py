"""Batch runner, crash triage, ddmin minimisation, replay files, known findings, evidence."""
import json
import os
import re
import signal
import subprocess
import sys
import tempfile
import time
from concurrent.futures import ThreadPoolExecutor

from . import build as B

VERIF = B.VERIF
OUT = os.environ.get('VERIF_OUT', VERIF)   # redirected by the mutant self-test
REPLAYS = os.path.join(OUT, 'replays')
EVIDENCE = os.path.join(OUT, 'evidence')
KNOWN = os.environ.get('VERIF_KNOWN', os.path.join(VERIF, 'known_findings.json'))   # override: self-test only
WORK = os.path.join(VERIF, 'build', 'work')

SAN_ENV = {
    'ASAN_OPTIONS': 'abort_on_error=0:exitcode=97:detect_leaks=0:symbolize=1:allocator_may_return_null=1',
    'UBSAN_OPTIONS': 'print_stacktrace=0:halt_on_error=0:symbolize=1',
    'ASAN_SYMBOLIZER_PATH': '/usr/bin/llvm-symbolizer-14',
}


class HarnessError(Exception):
    """Anything that is neither a pass nor a violation (exit code 2)."""


def log(msg):
    sys.stderr.write(msg + '\n')
    sys.stderr.flush()


def _env():
    e = dict(os.environ)
    e.update(SAN_ENV)
    if not os.path.exists(e['ASAN_SYMBOLIZER_PATH']):
        e.pop('ASAN_SYMBOLIZER_PATH')
    return e


# ---------------------------------------------------------------------------------------------
# Outcomes of one trace execution

class Outcome:
    def __init__(self, kind, vclass='', msg='', op=-1, stderr='', notes=None, stats=None):
        self.kind = kind          # ok | violated | crash | timeout | error
        self.vclass = vclass
        self.msg = msg
        self.op = op
        self.stderr = stderr
        self.notes = notes or []
        self.stats = stats

    @property
    def failed(self):
        return self.kind in ('violated', 'crash', 'timeout')

    def __repr__(self):
        return 'Outcome(%s %s %s)' % (self.kind, self.vclass, self.msg[:100])


_SAN_RE = re.compile(r'(?:runtime error: (?P<ub>[^\n]*))|(?:ERROR: AddressSanitizer: (?P<asan>[\w-]+))')
_FRAME_RE = re.compile(r'#\d+ 0x[0-9a-f]+ in (?P<fn>.*?) (?P<file>/[^\s:]+):(?P<line>\d+)')


def classify_crash(returncode, stderr):
    """Crash class from a dead simdev: sanitizer kind + first frame under /repo/src, else signal.
    Returns (vclass, message, attribution) with attribution in {'repo', 'verif', 'unknown'}."""
    m = _SAN_RE.search(stderr or '')
    frames = _FRAME_RE.findall(stderr or '')
    first_repo = next((f for f in frames if '/src/ace_time/' in f[1]), None)
    first_verif = next((f for f in frames if f[1].startswith(VERIF)), None)
    attribution = 'unknown'
    if frames:
        # first non-runtime frame decides
        for fn, path, line in frames:
            if '/src/ace_time/' in path:
                attribution = 'repo'
                break
            if path.startswith(VERIF):
                attribution = 'verif'
                break
    where = ''
    if first_repo:
        where = '%s:%s' % (os.path.basename(first_repo[1]), first_repo[2])
    if m:
        if m.group('ub'):
            # "signed integer overflow: 1 + 2 cannot be..." -> keep the kind, drop the operands
            kind = re.sub(r'[-\d]+', 'N', m.group('ub').split(':')[0]).strip().replace(' ', '-')
            src = re.search(r'(/[^\s:]+):(\d+):\d+: runtime error', stderr)
            if src and '/src/ace_time/' in src.group(1):
                where = '%s:%s' % (os.path.basename(src.group(1)), src.group(2))
                attribution = 'repo'
            elif src and src.group(1).startswith(VERIF):
                attribution = 'verif'
            return ('ub:%s@%s' % (kind, where or '?'), m.group('ub'), attribution)
        return ('asan:%s@%s' % (m.group('asan'), where or '?'), m.group(0), attribution)
    if returncode is not None and returncode < 0:
        try:
            name = signal.Signals(-returncode).name
        except ValueError:
            name = 'SIG%d' % -returncode
        return ('crash:%s' % name, 'process died with %s' % name, attribution)
    return ('crash:exit%s' % returncode, 'process exited with %s' % returncode, attribution)


_RESULT_RE = re.compile(r'^RESULT (ok|violated)(?: class=(\S+) op=(-?\d+) msg="(.*)")?$', re.M)


IGNORE_UB = []   # set by a check while it triages: UB classes of listed known findings


def known_ub_classes(prop):
    """Current 'ub:<kind>@<file>:<line>' classes of the listed known UB findings (sites are recorded
    by source text, so line numbers are resolved against the tree being checked)."""
    out = []
    for k in load_known().get('findings', []):
        if k.get('property') != prop or 'site_text' not in k:
            continue
        for root, _, files in os.walk(os.path.join(B.repo_src(), 'ace_time')):
            if k['site_file'] in files:
                with open(os.path.join(root, k['site_file'])) as f:
                    for i, l in enumerate(f.read().split('\n')):
                        if l.strip() == k['site_text']:
                            out.append('ub:%s@%s:%d' % (k.get('ub_kind', 'signed-integer-overflow'), k['site_file'], i + 1))
    return out


def run_trace(binary, trace_text, timeout=30, want_stats=False):
    os.makedirs(WORK, exist_ok=True)
    fd, path = tempfile.mkstemp(prefix='trace-', suffix='.txt', dir=WORK)
    try:
        with os.fdopen(fd, 'w') as f:
            f.write(trace_text)
        cmd = [binary, 'replay', path] + (['--stats'] if want_stats else [])
        try:
            env = _env()
            if IGNORE_UB:
                env['SIM_IGNORE_UB'] = ','.join(IGNORE_UB)
            p = subprocess.run(cmd, stdout=subprocess.PIPE, stderr=subprocess.PIPE, text=True,
                               timeout=timeout, env=env, errors='replace')
        except subprocess.TimeoutExpired:
            return Outcome('timeout', 'hang', 'no result within %ss' % timeout)
    finally:
        try:
            os.unlink(path)
        except OSError:
            pass
    m = _RESULT_RE.search(p.stdout)
    notes = re.findall(r'^NOTE (.*)$', p.stdout, re.M)
    stats = None
    if want_stats:
        sm = re.search(r'^STATS (.*)$', p.stdout, re.M)
        if sm:
            stats = json.loads(sm.group(1))
    if m and p.returncode in (0, 1):
        if m.group(1) == 'ok':
            return Outcome('ok', notes=notes, stats=stats)
        msg = m.group(4).encode().decode('unicode_escape') if m.group(4) else ''
        return Outcome('violated', m.group(2), msg, int(m.group(3)), notes=notes, stats=stats)
    if p.returncode == 2 and not _SAN_RE.search(p.stderr):
        return Outcome('error', 'harness', p.stderr[-2000:])
    vclass, msg, attribution = classify_crash(p.returncode, p.stderr)
    o = Outcome('crash', vclass, msg, stderr=p.stderr[-6000:])
    o.attribution = attribution
    return o


def gen_trace(binary, profile, seed):
    p = subprocess.run([binary, 'gen', profile, str(seed)], stdout=subprocess.PIPE, stderr=subprocess.PIPE,
                       text=True, timeout=60)
    if p.returncode != 0:
        raise HarnessError('simdev gen failed: ' + p.stderr)
    return p.stdout


# ---------------------------------------------------------------------------------------------
# Batches

class BatchResult:
    def __init__(self):
        self.runs = 0
        self.nontrivial = 0
        self.counters = {}
        self.cells = {}
        self.samples = []
        self.digests = []
        self.violations = []   # dicts: run, seed, vclass, msg, op, crash(bool)
        self.ubhits = []       # recoverable UB reports (sanitizer build), first per site per batch
        self.bitmap = 0
        self.bitmap_len = 0

    def merge_stats(self, st):
        self.runs += st['runs']
        self.nontrivial += st['nontrivial']
        for k, v in st['counters'].items():
            self.counters[k] = self.counters.get(k, 0) + v
        for k, v in st['cells'].items():
            self.cells.setdefault(k, set()).update(v)
        if len(self.samples) < 3:
            self.samples.extend(st['samples'][:3 - len(self.samples)])


_UBHIT_RE = re.compile(r'^UBHIT run=(\d+) seed=(\d+) class=(\S+) file=(\S+) op="(.*)" msg="(.*)"$', re.M)
_VIOL_RE = re.compile(r'^VIOL run=(\d+) seed=(\d+) class=(\S+) op=(-?\d+) msg="(.*)"$', re.M)


def _run_one_batch(binary, profile, verif_seed, start, count, timeout, use_bitmap, stop_on_violation=True,
                   crash_note_ops=()):
    """Runs [start, start+count). Survives crashes/hangs of individual runs: the in-flight run is
    identified from the progress file and the batch is resumed after it."""
    os.makedirs(WORK, exist_ok=True)
    out = {'stats': [], 'viol': [], 'bitmaps': [], 'digest': [], 'ubhits': []}
    pos = start
    end = start + count
    guard = 0
    while pos < end:
        guard += 1
        if guard > 200:
            raise HarnessError('batch %s@%d keeps dying' % (profile, start))
        pf = os.path.join(WORK, 'prog-%d-%s-%d' % (os.getpid(), profile, start))
        bmf = pf + '.bm' if use_bitmap else None
        cmd = [binary, 'batch', profile, str(verif_seed), str(pos), str(end - pos), pf] + (['--bitmap', bmf] if bmf else []) \
            + (['--crash-note-ops', ','.join(crash_note_ops)] if crash_note_ops else [])
        died = None
        try:
            p = subprocess.run(cmd, stdout=subprocess.PIPE, stderr=subprocess.PIPE, text=True,
                               timeout=timeout, env=_env(), errors='replace')
            rc, so, se = p.returncode, p.stdout, p.stderr
        except subprocess.TimeoutExpired as e:
            rc, so, se = None, (e.stdout or b'').decode(errors='replace') if isinstance(e.stdout, bytes) else (e.stdout or ''), ''
            died = 'timeout'
        inflight = None
        try:
            with open(pf, 'rb') as f:
                rec = f.read(16)
            if len(rec) == 16:
                idx = int.from_bytes(rec[:8], 'little')
                sd = int.from_bytes(rec[8:], 'little')
                if idx != 0xFFFFFFFFFFFFFFFF:
                    inflight = (idx, sd)
            os.unlink(pf)
        except OSError:
            pass
        for m in _VIOL_RE.finditer(so):
            out['viol'].append({'run': int(m.group(1)), 'seed': int(m.group(2)), 'vclass': m.group(3),
                                'op': int(m.group(4)),
                                'msg': m.group(5).encode().decode('unicode_escape'), 'crash': False})
        for m in _UBHIT_RE.finditer(so):
            out['ubhits'].append({'run': int(m.group(1)), 'seed': int(m.group(2)), 'vclass': m.group(3),
                                  'file': m.group(4), 'op_line': m.group(5).encode().decode('unicode_escape'),
                                  'msg': m.group(6).encode().decode('unicode_escape'), 'op': -1, 'crash': False,
                                  'ub': True})
        sm = re.search(r'^STATS (.*)$', so, re.M)
        nm = re.search(r'^NEXT (\d+)$', so, re.M)
        if sm and rc == 0:
            st = json.loads(sm.group(1))
            out['stats'].append(st)
            out['digest'].append(st['digest'])
            if bmf and os.path.exists(bmf):
                with open(bmf, 'rb') as f:
                    out['bitmaps'].append(f.read())
                os.unlink(bmf)
            pos = int(nm.group(1)) if nm else end
            try:
                os.unlink(pf + '.stats')
            except OSError:
                pass
            if out['viol'] and stop_on_violation:
                break
            continue
        # abnormal end: recover the last coverage snapshot the batch wrote
        try:
            with open(pf + '.stats') as f:
                snap = re.search(r'^STATS (.*)$', f.read(), re.M)
            if snap:
                out['stats'].append(json.loads(snap.group(1)))
        except (OSError, ValueError):
            pass
        if inflight is None:
            raise HarnessError('simdev batch died without progress record: rc=%s stderr=%s' % (rc, se[-1500:]))
        if died == 'timeout':
            out['viol'].append({'run': inflight[0], 'seed': inflight[1], 'vclass': 'hang', 'op': -1,
                                'msg': 'run did not finish within the batch timeout', 'crash': True,
                                'stderr': ''})
        else:
            vclass, msg, attribution = classify_crash(rc, se)
            out['viol'].append({'run': inflight[0], 'seed': inflight[1], 'vclass': vclass, 'op': -1,
                                'msg': msg, 'crash': True, 'stderr': se[-6000:], 'attribution': attribution})
        pos = inflight[0] + 1   # coverage of the partial batch before the crash is lost (undercount)
        if stop_on_violation:
            break
    return out


def run_batches(binary, profile, verif_seed, total_runs, batch_size, workers=None, batch_timeout=900,
                use_bitmap=False, stop_on_violation=True, first_run=0, deadline=None, crash_note_ops=()):
    """Executes runs [first_run, first_run+total_runs) in parallel batches; aggregates in index order."""
    workers = workers or int(os.environ.get('VERIF_WORKERS', '0') or 0) or min(16, os.cpu_count() or 4)
    res = BatchResult()
    starts = list(range(first_run, first_run + total_runs, batch_size))
    stop = {'flag': False}

    def job(s):
        if stop['flag']:
            return None
        if deadline and time.time() > deadline:
            return None
        n = min(batch_size, first_run + total_runs - s)
        r = _run_one_batch(binary, profile, verif_seed, s, n, batch_timeout, use_bitmap, stop_on_violation,
                           crash_note_ops)
        if r['viol'] and stop_on_violation:
            stop['flag'] = True
        return r

    with ThreadPoolExecutor(max_workers=workers) as ex:
        outs = list(ex.map(job, starts))
    skipped = 0
    for o in outs:
        if o is None:
            skipped += 1
            continue
        for st in o['stats']:
            res.merge_stats(st)
        res.digests.extend(o['digest'])
        res.violations.extend(o['viol'])
        res.ubhits.extend(o['ubhits'])
        for bm in o['bitmaps']:
            res.bitmap |= int.from_bytes(bm, 'little')
            res.bitmap_len = max(res.bitmap_len, len(bm))
    res.violations.sort(key=lambda v: v['run'])
    res.ubhits.sort(key=lambda v: v['run'])
    res.skipped_batches = skipped
    return res


# ---------------------------------------------------------------------------------------------
# Minimisation (ddmin over trace lines, then numeric arguments)

def _exec(target, text, timeout):
    """target is a simdev binary path, or a callable(text) -> Outcome (in-process engines)."""
    if callable(target):
        return target(text)
    return run_trace(target, text, timeout)


def split_trace(text):
    lines = [l for l in text.split('\n') if l.strip()]
    assert lines and lines[0].startswith('PROFILE ')
    return lines[0], lines[1:]


def join_trace(head, lines):
    return head + '\n' + '\n'.join(lines) + '\n'


def same_failure(o, ref_class):
    if not o.failed:
        return False
    return o.vclass == ref_class


def ddmin(binary, text, ref_class, timeout=30, max_tests=4000, keep=lambda l: False):
    """Classic ddmin; `keep` marks lines that are never removed. Candidates must fail with the same
    violation class."""
    head, lines = split_trace(text)
    tests = [0]

    def fails(cand):
        tests[0] += 1
        return same_failure(_exec(binary, join_trace(head, cand), timeout), ref_class)

    # quick win: truncate after the failing op
    n = 2
    while len(lines) >= 2 and tests[0] < max_tests:
        chunk = max(1, len(lines) // n)
        reduced = False
        # try removing each chunk (complement testing is what matters for sequences)
        i = 0
        while i < len(lines):
            cand = lines[:i] + [l for l in lines[i:i + chunk] if keep(l)] + lines[i + chunk:]
            if len(cand) < len(lines) and fails(cand):
                lines = cand
                reduced = True
                n = max(n - 1, 2)
            else:
                i += chunk
            if tests[0] >= max_tests:
                break
        if not reduced:
            if chunk == 1:
                break
            n = min(len(lines), n * 2)
    return join_trace(head, lines), tests[0]


_NUM_RE = re.compile(r'(?<![\w.])-?\d+(?![\w.])')


def shrink_numbers(binary, text, ref_class, timeout=30, max_tests=1500):
    """Second pass: pull numeric arguments of op lines (not CFG/REF ordinals) towards small values."""
    head, lines = split_trace(text)
    tests = [0]

    def fails(cand):
        tests[0] += 1
        return same_failure(_exec(binary, join_trace(head, cand), timeout), ref_class)

    for idx in range(len(lines)):
        toks = lines[idx].split(' ')
        if toks[0] not in ('ADV', 'SET', 'RTC'):
            continue
        for ti in range(1, len(toks)):
            if not re.fullmatch(r'-?\d+', toks[ti]):
                continue
            cur = int(toks[ti])
            for target in (0, 1, 1000, cur // 1000 * 1000, cur // 2, cur - cur % 100):
                if target == cur or abs(target) > abs(cur) or tests[0] >= max_tests:
                    continue
                t2 = list(toks)
                t2[ti] = str(target)
                cand = lines[:idx] + [' '.join(t2)] + lines[idx + 1:]
                if fails(cand):
                    lines = cand
                    toks = t2
                    cur = target
    return join_trace(head, lines), tests[0]


def expand_repeats(text):
    """QR <slot> repeats the last query; make every op self-contained before shrinking."""
    head, lines = split_trace(text)
    last = None
    out = []
    for l in lines:
        t = l.split()
        if t and t[0] == 'Q' and len(t) >= 3:
            last = ' '.join(t[2:]).split('#')[0].strip()
        if t and t[0] == 'QR' and len(t) >= 2 and last:
            out.append('Q %s %s' % (t[1], last))
        else:
            out.append(l)
    return join_trace(head, out)


def minimise(binary, text, ref_class, timeout=30):
    if ref_class == 'hang':
        # every failing candidate costs a full time-out: one coarse pass only
        t1, n1 = ddmin(binary, text, ref_class, timeout, max_tests=60)
        return t1, n1
    ex = expand_repeats(text)
    if same_failure(_exec(binary, ex, timeout), ref_class):
        text = ex
    t1, n1 = ddmin(binary, text, ref_class, timeout)
    t2, n2 = shrink_numbers(binary, t1, ref_class, timeout)
    t3, n3 = ddmin(binary, t2, ref_class, timeout, max_tests=600)
    return t3, n1 + n2 + n3


# ---------------------------------------------------------------------------------------------
# Known findings, replay files, evidence

def load_known():
    try:
        with open(KNOWN) as f:
            return json.load(f)
    except FileNotFoundError:
        return {'findings': [], 'fixed': []}


def source_line(path, line):
    try:
        with open(path) as f:
            ls = f.read().split('\n')
        return ls[line - 1].strip()
    except (OSError, IndexError):
        return ''


def match_known_ub(prop, vclass, file_path, op_line):
    """A known UB finding is identified by its call site (file + the text of the source line, so that
    it survives line renumbering) and a regex on the op that was executing."""
    m = re.match(r'ub:(.*)@(.*):(\d+)$', vclass)
    if not m:
        return None
    text = source_line(file_path, int(m.group(3)))
    for k in load_known().get('findings', []):
        if k.get('property') != prop or 'site_text' not in k:
            continue
        if k.get('ub_kind') and k['ub_kind'] != m.group(1):
            continue
        if os.path.basename(file_path) != k.get('site_file'):
            continue
        if text != k['site_text']:
            continue
        if 'op_regex' in k and not re.search(k['op_regex'], op_line):
            continue
        return k
    return None


def match_known(prop, vclass, min_trace, msg):
    for k in load_known().get('findings', []):
        if k.get('property') != prop:
            continue
        if not re.fullmatch(k.get('vclass', '.*'), vclass):
            continue
        if 'trace_regex' in k and not re.search(k['trace_regex'], min_trace, re.S):
            continue
        if 'message_regex' in k and not re.search(k['message_regex'], msg, re.S):
            continue
        return k
    return None


def write_replay(prop, profile, tier, verif_seed, v, original, minimised, variant, tests, extra=None):
    os.makedirs(REPLAYS, exist_ok=True)
    path = os.path.join(REPLAYS, '%s-%s-%d.json' % (prop, profile, v['seed']))
    doc = {
        'property': prop, 'profile': profile, 'tier': tier, 'verif_seed': verif_seed,
        'run_index': v['run'], 'run_seed': v['seed'],
        'violation_class': v['vclass'], 'message': v['msg'],
        'build_variant': variant, 'repo': B.repo_state(),
        'minimised_trace': minimised, 'original_trace': original,
        'minimisation_tests': tests,
        'replay_cmd': '/verif/bin/vcheck replay %s' % path,
    }
    if extra:
        doc.update(extra)
    with open(path, 'w') as f:
        json.dump(doc, f, indent=1)
    return path


def validate_evidence(doc):
    """Structural validation against EVIDENCE.schema.json with jsonschema when importable,
    otherwise a hand check of the required keys."""
    schema_path = '/root/.vp/EVIDENCE.schema.json'
    try:
        import jsonschema  # noqa
        with open(schema_path) as f:
            jsonschema.validate(doc, json.load(f))
        return
    except ImportError:
        pass
    except FileNotFoundError:
        pass
    for k in ('property_id', 'tier', 'seed', 'level', 'coverage', 'wall_s'):
        if k not in doc:
            raise HarnessError('evidence lacks ' + k)
    c = doc['coverage']
    if not (isinstance(c.get('evaluations'), int) and c['evaluations'] >= 1):
        raise HarnessError('evidence: evaluations')
    if not (isinstance(c.get('distinct_nontrivial'), int) and c['distinct_nontrivial'] >= 2):
        raise HarnessError('evidence: distinct_nontrivial < 2')
    if not (isinstance(c.get('samples'), list) and c['samples']):
        raise HarnessError('evidence: samples')
    if not isinstance(c.get('rule'), str):
        raise HarnessError('evidence: rule')


def write_evidence(prop, doc, dev=False):
    """dev=True (a `--runs N` development run, which also skips the supplementary stages): the registered evidence file
    is left alone and the document goes to <id>.dev.json (git-ignored)."""
    os.makedirs(EVIDENCE, exist_ok=True)
    validate_evidence(doc)
    path = os.path.join(EVIDENCE, '%s%s.json' % (prop, '.dev' if dev else ''))
    tmp = path + '.tmp'
    with open(tmp, 'w') as f:
        json.dump(doc, f, indent=1, sort_keys=True)
    os.replace(tmp, path)
    return path
