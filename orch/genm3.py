"""C09, third sentence, for compiler-generated zones (stage of the C09 check).

The tree's own tools/tzcompiler.py compiles the reconstructed + synthetic TZ source (the one C20 uses) into zone files
for both scopes; they are built, with /repo/src, into a small ASan+UBSan tool (genm3/genm3.cpp) that runs the real
processors over every generated zone and every year and compares the pool high-water mark with the size the compiler
recorded. Plain enumeration (zones x years), reported apart from the seeded search."""
import json
import os
import re
import shutil
import subprocess
import tempfile
import time
from concurrent.futures import ThreadPoolExecutor

from . import build as B
from . import core as K

PY = '/venv/bin/python' if os.path.exists('/venv/bin/python') else 'python3'
SCOPES = (('extended', 'zonedbxgen', 'x'), ('basic', 'zonedbgen', 'b'))


def _generate(root):
    from detcompile import reconstruct as R
    src = os.path.join(root, 'src')
    recon = R.reconstruct(B.REPO, src)
    env = {k: v for k, v in os.environ.items() if not k.startswith('PYTHON')}
    env.update({'PYTHONHASHSEED': '0', 'PYTHONDONTWRITEBYTECODE': '1', 'HOME': os.path.join(root, 'home'), 'TZ': 'UTC'})
    os.makedirs(env['HOME'], exist_ok=True)
    for scope, ns, sub in SCOPES:
        out = os.path.join(root, 'gen', sub)
        os.makedirs(out, exist_ok=True)
        cmd = [PY, os.path.join(B.REPO, 'tools', 'tzcompiler.py'), '--input_dir', 'src', '--output_dir', os.path.join('gen', sub),
               '--tz_version', '2020d', '--action', 'zonedb', '--language', 'arduino', '--scope', scope,
               '--db_namespace', ns, '--start_year', '2000', '--until_year', '2050']
        p = subprocess.run(cmd, cwd=root, env=env, stdout=subprocess.PIPE, stderr=subprocess.PIPE, text=True, timeout=900)
        if p.returncode != 0:
            raise K.HarnessError('genm3: tzcompiler failed for scope %s:\n%s' % (scope, p.stderr[-2000:]))
    return recon


def _build(root):
    fl = B.COMMON + B.VARIANTS['san'] + [B.HOOK_DEFINE, '-I' + os.path.join(B.VERIF, 'shim'), '-I' + B.repo_src(),
                                         '-I' + os.path.join(root, 'gen')]
    fl = [f for f in fl if f != '-fsanitize-recover=undefined']   # every report is fatal here: the tool has no report hook
    base = os.path.join(B.repo_src(), 'ace_time')
    srcs = [os.path.join(B.VERIF, 'genm3', 'genm3.cpp'), os.path.join(B.VERIF, 'shim', 'shim.cpp')]
    for sub in ('', 'common'):
        d = os.path.join(base, sub)
        srcs += [os.path.join(d, f) for f in sorted(os.listdir(d)) if f.endswith('.cpp')]
    for _s, _ns, sub in SCOPES:
        d = os.path.join(root, 'gen', sub)
        srcs += [os.path.join(d, f) for f in sorted(os.listdir(d)) if f.endswith('.cpp')]
    objdir = os.path.join(root, 'obj')
    os.makedirs(objdir, exist_ok=True)

    def cc(i_src):
        i, src = i_src
        obj = os.path.join(objdir, '%02d.o' % i)
        # generated initialisers put an unsigned nibble pair into an int8_t field (decoded through a uint8_t cast);
        # the Arduino toolchains accept that with a warning, clang needs to be told
        extra = ['-Wno-c++11-narrowing'] if src.startswith(os.path.join(root, 'gen')) else []
        p = subprocess.run([B.CXX] + fl + extra + ['-I' + os.path.dirname(src), '-c', src, '-o', obj], stdout=subprocess.PIPE,
                           stderr=subprocess.STDOUT, text=True, timeout=900)
        return obj, p.returncode, p.stdout

    with ThreadPoolExecutor(max_workers=min(16, os.cpu_count() or 4)) as ex:
        res = list(ex.map(cc, list(enumerate(srcs))))
    for obj, rc, log in res:
        if rc != 0:
            raise K.HarnessError('genm3: compile failed:\n' + log[-3000:])
    binary = os.path.join(root, 'genm3')
    p = subprocess.run([B.CXX] + [f for f in B.VARIANTS['san'] if f != '-fsanitize-recover=undefined'] + [o for o, _r, _l in res]
                       + ['-o', binary], stdout=subprocess.PIPE, stderr=subprocess.STDOUT, text=True, timeout=900)
    if p.returncode != 0:
        raise K.HarnessError('genm3: link failed:\n' + p.stdout[-3000:])
    return binary


def _run(binary, args):
    env = dict(os.environ)
    env['ASAN_OPTIONS'] = 'detect_leaks=0:abort_on_error=0'
    env['UBSAN_OPTIONS'] = 'print_stacktrace=1:halt_on_error=1'
    return subprocess.run([binary] + args, stdout=subprocess.PIPE, stderr=subprocess.PIPE, text=True, timeout=1800, env=env)


def _parse(p):
    viols = []
    for m in re.finditer(r'^GENM3VIOL db=(\S+) zone=(\S+) year=(-?\d+) (.*)$', p.stdout, re.M):
        viols.append({'db': m.group(1), 'zone': m.group(2), 'year': int(m.group(3)), 'what': m.group(4)})
    m = re.search(r'GENM3 zones=(\d+) checks=(\d+) violations=(\d+)', p.stdout)
    return viols, m


def sweep(prop, tier, verif_seed):
    """Returns (info dict for the evidence file, replay path or None)."""
    t0 = time.time()
    root = tempfile.mkdtemp(prefix='genm3-')
    try:
        recon = _generate(root)
        binary = _build(root)
        p = _run(binary, ['sweep'])
        viols, summ = _parse(p)
        san = None
        if not summ:
            # the tool died: a sanitizer report (or a crash) inside the processors on a generated zone
            san = (p.stderr or '')[-3000:]
            # find the zone: run zone by zone
            lst = _run(binary, ['list']).stdout.split('\n')
            for line in lst:
                parts = line.split()
                if len(parts) < 2:
                    continue
                for y in range(1998, 2053):
                    q = _run(binary, ['one', parts[0], parts[1], str(y)])
                    if not re.search(r'GENM3 zones=', q.stdout):
                        viols.append({'db': parts[0], 'zone': parts[1], 'year': y,
                                      'what': 'sanitizer report / crash: ' + (re.findall(r'(runtime error:.*|ERROR: AddressSanitizer:.*)', q.stderr) or ['?'])[0][:200]})
                        break
                if viols:
                    break
            if not viols:
                raise K.HarnessError('genm3 tool died and no single zone/year reproduces it:\n' + san)
        hook_line = False
        try:
            with open(os.path.join(B.repo_src(), 'ace_time', 'BasicZoneProcessor.h')) as f:
                hook_line = 'ace_time_verif_basic_dropped++' in f.read()
        except OSError:
            pass
        info = {'source': recon,
                'basic_clause': ('checked through the guarded dropped-transition counter' if hook_line else
                                 'NOT CHECKED: the guarded counter is no longer in BasicZoneProcessor.h'), 'zones_swept': int(summ.group(1)) if summ else None,
                'zone_year_instant_checks': int(summ.group(2)) if summ else None,
                'years': '1998..2052 (asserted wherever the processor accepts the year), four instants per year, by epoch seconds and by local date-time',
                'modes': ['fresh processor per year', 'one processor walking the years up and then down (cumulative mark)'],
                'build': 'ASan+UBSan, ACE_TIME_VERIF_HOOKS (basic dropped-transition counter)',
                'exhaustive': not viols, 'wall_s': round(time.time() - t0, 1)}
        if not viols:
            return info, None
        v0 = viols[0]
        # confirm in a process of its own
        q = _run(binary, ['one', v0['db'], v0['zone'], str(v0['year'])])
        qv, qs = _parse(q)
        if qs and not qv:
            raise K.HarnessError('genm3: %s %s %d does not reproduce on its own' % (v0['db'], v0['zone'], v0['year']))
        path = write_replay(prop, tier, verif_seed, v0, root)
        K.log('[%s] generated zone %s (%s) year %d: %s' % (prop, v0['zone'], v0['db'], v0['year'], v0['what']))
        info['violations'] = viols[:10]
        return info, path
    finally:
        shutil.rmtree(root, ignore_errors=True)


def _zone_source_lines(root, zone):
    out = []
    lines = []
    srcdir = os.path.join(root, 'src')
    try:
        for n in sorted(os.listdir(srcdir)):
            with open(os.path.join(srcdir, n)) as f:
                lines += f.read().split('\n')
    except OSError:
        return out
    take = False
    for l in lines:
        if l.startswith('Zone\t'):
            take = l.split('\t')[1] == zone
        elif not l.startswith('\t'):
            take = False
        if take:
            out.append(l)
    return out[:40]


def write_replay(prop, tier, verif_seed, v, root):
    os.makedirs(K.REPLAYS, exist_ok=True)
    path = os.path.join(K.REPLAYS, '%s-genm3-%s-%s-%d.json' % (prop, v['db'], v['zone'].replace('/', '_'), v['year']))
    doc = {'property': prop, 'engine': 'genm3', 'tier': tier, 'verif_seed': verif_seed,
           'violation_class': 'c09-generated-zone-pool', 'message': v['what'], 'db': v['db'], 'zone': v['zone'], 'year': v['year'],
           'zone_source_lines': _zone_source_lines(root, v['zone']), 'repo': B.repo_state(),
           'minimised_trace': 'compile the reconstructed source with tools/tzcompiler.py (%s scope), run the %s processor on %s in %d'
                              % ('extended' if v['db'] == 'x' else 'basic', 'extended' if v['db'] == 'x' else 'basic', v['zone'], v['year']),
           'replay_cmd': '/verif/bin/vcheck replay %s' % path}
    with open(path, 'w') as f:
        json.dump(doc, f, indent=1)
    return path


def replay(doc, path):
    root = tempfile.mkdtemp(prefix='genm3-')
    try:
        _generate(root)
        binary = _build(root)
        q = _run(binary, ['one', doc['db'], doc['zone'], str(doc['year'])])
        qv, qs = _parse(q)
    finally:
        shutil.rmtree(root, ignore_errors=True)
    print('replay of %s (%s): %s' % (path, doc['property'], doc['minimised_trace']))
    if qv or not qs:
        print('REPRODUCED: %s' % (qv[0]['what'] if qv else 'sanitizer report / crash'))
        print('VIOLATION property=%s replay=%s' % (doc['property'], path))
        return 1
    print('not reproduced on the current tree')
    return 0
