"""C09 stage: the MemorySanitizer probe (msan/msanprobe.cpp) - values the library returns without having written them.

A small seeded simulator of its own, free of the C++ standard library so that every byte of the process is
instrumented, built at -O0 with -fsanitize=memory from /repo's current tree. One seed index = one sequence of
creations, copies, saves, restores and questions over shared processors and evicting managers; a report is minimised
to the shortest prefix and then op by op, and replays exactly."""
import json
import os
import re
import shutil
import subprocess
import tempfile
import time
from concurrent.futures import ThreadPoolExecutor

from . import build as B
from . import core as K

RUNS = {'quick': 160000, 'thorough': 8000000}


def _build(root):
    base = os.path.join(B.repo_src(), 'ace_time')
    srcs = [os.path.join(B.VERIF, 'msan', 'msanprobe.cpp'), os.path.join(B.VERIF, 'shim', 'shim.cpp')]
    for sub in ('', 'common', 'zonedb', 'zonedbx'):
        d = os.path.join(base, sub)
        srcs += [os.path.join(d, f) for f in sorted(os.listdir(d)) if f.endswith('.cpp')]
    fl = B.COMMON + ['-O0', '-g', '-fno-omit-frame-pointer', '-fsanitize=memory', '-fsanitize-memory-track-origins',
                     '-I' + os.path.join(B.VERIF, 'shim'), '-I' + B.repo_src()]
    objdir = os.path.join(root, 'obj')
    os.makedirs(objdir, exist_ok=True)

    def cc(i_src):
        i, src = i_src
        obj = os.path.join(objdir, '%02d.o' % i)
        p = subprocess.run([B.CXX] + fl + ['-c', src, '-o', obj], stdout=subprocess.PIPE, stderr=subprocess.STDOUT, text=True, timeout=900)
        return obj, p.returncode, p.stdout

    with ThreadPoolExecutor(max_workers=min(16, os.cpu_count() or 4)) as ex:
        res = list(ex.map(cc, list(enumerate(srcs))))
    for obj, rc, log in res:
        if rc != 0:
            raise K.HarnessError('msanprobe: compile failed:\n' + log[-3000:])
    binary = os.path.join(root, 'msanprobe')
    p = subprocess.run([B.CXX, '-fsanitize=memory', '-g'] + [o for o, _r, _l in res] + ['-o', binary],
                       stdout=subprocess.PIPE, stderr=subprocess.STDOUT, text=True, timeout=900)
    if p.returncode != 0:
        raise K.HarnessError('msanprobe: link failed:\n' + p.stdout[-3000:])
    return binary


def _env():
    env = dict(os.environ)
    env['MSAN_OPTIONS'] = 'halt_on_error=1:exit_code=77:print_stats=0'
    return env


def _one(binary, seed, index, nops=None, skip=()):
    args = [binary, 'one', str(seed), str(index)]
    if nops is not None:
        args.append(str(nops))
        if skip:
            args.append(','.join(str(s) for s in skip))
    p = subprocess.run(args, stdout=subprocess.PIPE, stderr=subprocess.PIPE, text=True, timeout=120, env=_env())
    if p.returncode == -14:   # SIGALRM: the probe's per-sequence watchdog
        p.stderr += '\nMemorySanitizer: hang (a library call did not return within 30 s) %s/ace_time/unknown.h:0\n' % B.repo_src()
    return ('MemorySanitizer' in p.stderr or p.returncode not in (0,)), p


def _classify(stderr):
    """(class, attributed_to_repo): the first frame of the report that lies in /repo's sources names the class."""
    src = B.repo_src()
    kind = (re.findall(r'MemorySanitizer: ([A-Za-z-]+)', stderr) or ['report'])[0]
    # the first frame of the STACK (not of the origin chain that follows it) that lies in /repo's sources
    head = stderr.split('Uninitialized value was')[0]
    m = re.search(re.escape(src) + r'/(?:ace_time/)?(?:[\w./]*/)?([\w]+\.(?:h|cpp)):(\d+)', head)
    if m:
        return 'msan:%s@%s:%s' % (kind, m.group(1), m.group(2)), True
    m = re.search(re.escape(src) + r'/(?:ace_time/)?(?:[\w./]*/)?([\w]+\.(?:h|cpp)):(\d+)', stderr)
    if m:   # consumed in the probe, created in /repo: a value the library handed out without writing it
        return 'msan:%s@origin:%s:%s' % (kind, m.group(1), m.group(2)), True
    # no /repo frame at all: the probe itself tripped over a value the library handed it (e.g. strlen() of the pointer
    # getAbbrev() returned). The probe has no state of its own worth the name and is quiet on the unchanged tree, so
    # this is attributed to the library's answer, named by the probe line that consumed it.
    m = re.search(r'msanprobe\.cpp:(\d+)', head)
    if m:
        return 'msan:%s@probe-line-%s' % (kind, m.group(1)), True
    return 'msan:%s' % kind, False


def sweep(prop, tier, verif_seed, runs=None):
    t0 = time.time()
    root = tempfile.mkdtemp(prefix='msanprobe-')
    try:
        binary = _build(root)
        total = runs or RUNS[tier]
        workers = int(os.environ.get('VERIF_WORKERS', '0') or 0) or min(16, os.cpu_count() or 4)
        chunk = max(500, total // (workers * 4))
        jobs = [(s, min(chunk, total - s)) for s in range(0, total, chunk)]

        def job(j):
            p = subprocess.run([binary, 'run', str(verif_seed), str(j[0]), str(j[1])], stdout=subprocess.PIPE,
                               stderr=subprocess.PIPE, text=True, timeout=7200, env=_env())
            if p.returncode == 0 and 'DONE' in p.stdout[-200:]:
                return None
            last = re.findall(r'SEQ (\d+)', p.stdout[-400:])
            return (int(last[-1]) if last else j[0], p.stderr[-6000:], p.returncode)

        found = None
        done = 0
        with ThreadPoolExecutor(max_workers=workers) as ex:
            for j, r in zip(jobs, ex.map(job, jobs)):
                if r is None:
                    done += j[1]
                elif found is None or r[0] < found[0]:
                    found = r
        info = {'sequences': done, 'ops_per_sequence': '4..60', 'build': '-O0 -fsanitize=memory -fsanitize-memory-track-origins, no C++ standard library in the process',
                'real': ['every public TimeZone / ZoneManager / ZonedDateTime / OffsetDateTime operation the device profile uses'],
                'sequences_per_hour': int(done / max(1e-6, time.time() - t0) * 3600), 'exhaustive': False}
        if found is None:
            info['wall_s'] = round(time.time() - t0, 1)
            return info, None
        index, stderr, rc = found
        bad, p = _one(binary, verif_seed, index)
        if not bad:
            raise K.HarnessError('msanprobe: sequence %d reported in a batch but not on its own (rc %s):\n%s' % (index, rc, stderr[-2000:]))
        vclass, in_repo = _classify(p.stderr)
        if not in_repo:
            raise K.HarnessError('msanprobe: report not attributable to /repo sources:\n' + p.stderr[-3000:])
        # minimise: shortest failing prefix, then drop ops one at a time
        lo, hi = 1, 60
        while lo < hi:
            mid = (lo + hi) // 2
            if _one(binary, verif_seed, index, mid)[0]:
                hi = mid
            else:
                lo = mid + 1
        nops = lo
        skip = []
        for i in range(nops - 1):
            trial = skip + [i]
            b2, p2 = _one(binary, verif_seed, index, nops, trial)
            if b2 and _classify(p2.stderr)[0] == vclass:
                skip = trial
        b3, p3 = _one(binary, verif_seed, index, nops, skip)
        report = [l for l in p3.stderr.split('\n') if l.strip()][:24]
        ops = [l.strip() for l in p3.stdout.split('\n') if l.startswith('  op: ')]
        path = write_replay(prop, tier, verif_seed, index, nops, skip, vclass, report, ops)
        K.log('[%s] %s: sequence %d, %d ops (%d dropped): %s' % (prop, vclass, index, nops, len(skip), report[1].strip() if len(report) > 1 else ''))
        info['wall_s'] = round(time.time() - t0, 1)
        return info, path
    finally:
        shutil.rmtree(root, ignore_errors=True)


def write_replay(prop, tier, verif_seed, index, nops, skip, vclass, report, ops=()):
    os.makedirs(K.REPLAYS, exist_ok=True)
    path = os.path.join(K.REPLAYS, '%s-msanprobe-%d-%d.json' % (prop, verif_seed, index))
    doc = {'property': prop, 'engine': 'msanprobe', 'tier': tier, 'verif_seed': verif_seed, 'index': index, 'nops': nops, 'skip': skip,
           'violation_class': vclass, 'message': '\n'.join(report[:12]), 'repo': B.repo_state(),
           'minimised_trace': 'msanprobe one %d %d %d %s\n%s' % (verif_seed, index, nops, ','.join(map(str, skip)), '\n'.join(ops)),
           'replay_cmd': '/verif/bin/vcheck replay %s' % path}
    with open(path, 'w') as f:
        json.dump(doc, f, indent=1)
    return path


def replay(doc, path):
    root = tempfile.mkdtemp(prefix='msanprobe-')
    try:
        binary = _build(root)
        bad, p = _one(binary, doc['verif_seed'], doc['index'], doc['nops'], doc.get('skip') or ())
    finally:
        shutil.rmtree(root, ignore_errors=True)
    print('replay of %s (%s): %s' % (path, doc['property'], doc['minimised_trace']))
    if bad:
        print('REPRODUCED:\n' + '\n'.join(p.stderr.split('\n')[:14]))
        print('VIOLATION property=%s replay=%s' % (doc['property'], path))
        return 1
    print('not reproduced on the current tree')
    return 0
