"""Prints the property ids a seeded change (meta.json "property") or a benign variant ("properties_preserved") names."""
import json
import re
import sys

d = json.load(open(sys.argv[1]))
ids = re.findall(r'C\d\d', str(d.get('property') or ''))
if not ids:
    for p in d.get('properties_preserved', []):
        ids += re.findall(r'C\d\d', str(p))[:1]
print(' '.join(dict.fromkeys(ids)) if d.get('property') is None else (ids[0] if ids else ''))
