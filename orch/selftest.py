"""Development-time self-tests: determinism across processes / worker counts / build variants, and
sensitivity against the mutant catalogue (each applied to a scratch copy of /repo/src under /tmp)."""
import json
import os
import shutil
import subprocess
import sys
import tempfile
import time

from . import build as B
from . import core as K

VERIF = B.VERIF


def _evidence_core(path):
    with open(path) as f:
        d = json.load(f)
    c = d['coverage']
    for k in ('runs_per_hour',):
        c.pop(k, None)
    if 'python_half' in c:
        c['python_half'].pop('wall_s', None)
    d.pop('wall_s', None)
    return json.dumps(d, sort_keys=True)


def end_to_end(seed):
    """Whole checks run twice (different worker counts, different PYTHONHASHSEED for the orchestrator
    itself via a wrapper env) must write identical evidence apart from wall-clock fields."""
    bad = 0
    for prop, runs in (('C13', 40000), ('C14', 40000), ('C08', 30000), ('C16', 30000)):
        outs = []
        for workers in ('16', '5'):
            out = tempfile.mkdtemp(prefix='e2e-')
            env = dict(os.environ)
            env.update({'VERIF_OUT': out, 'VERIF_WORKERS': workers, 'VERIF_SEED': str(seed)})
            p = subprocess.run([os.path.join(VERIF, 'bin', 'vcheck'), prop, '--runs', str(runs)], env=env,
                               stdout=subprocess.PIPE, stderr=subprocess.PIPE, text=True, timeout=3600)
            if p.returncode != 0:
                print('end-to-end %s: exit %d\n%s' % (prop, p.returncode, p.stderr[-800:]))
                bad += 1
            else:
                outs.append(_evidence_core(os.path.join(out, 'evidence', prop + '.dev.json')))   # --runs writes the .dev file
            shutil.rmtree(out, ignore_errors=True)
        ok = len(outs) == 2 and outs[0] == outs[1]
        print('end-to-end %s seed %d, 16 vs 5 workers: %s' % (prop, seed, 'identical evidence' if ok else 'MISMATCH'))
        if not ok:
            bad += 1
    return bad


def determinism(seed):
    bad = 0
    for vs in (seed, seed + 1, seed + 1000003):
        bad += end_to_end(vs)
    for variant in ('plain', 'san'):
        binary = B.build(variant)
        for profile in ('clock-keep', 'clock-sync', 'tz-history', 'tz-restore', 'device'):
            n = 400 if variant == 'plain' else 100
            ds = []
            for workers, batch in ((1, n), (16, 25), (7, 40)):
                r = K.run_batches(binary, profile, seed, n, batch, workers=workers, stop_on_violation=False)
                # digests are per batch; compare through the per-run reduction instead: rerun as one batch
                ds.append((r.runs, sorted(r.counters.items()), sorted((k, sorted(v)) for k, v in r.cells.items()),
                           [(v['run'], v['vclass'], v['msg']) for v in r.violations]))
            ok = all(d == ds[0] for d in ds[1:])
            print('determinism %-6s %-12s runs=%d workers 1/16/7: %s' % (variant, profile, n, 'same' if ok else 'MISMATCH'))
            if not ok:
                bad += 1
    # cross-variant: plain and san must produce the same traces and verdicts
    for profile in ('clock-keep', 'clock-sync', 'tz-history', 'tz-restore', 'device'):
        a = K._run_one_batch(B.build('plain'), profile, seed, 0, 100, 600, False)
        b = K._run_one_batch(B.build('san'), profile, seed, 0, 100, 600, False)
        ok = a['digest'] == b['digest'] and [(v['run'], v['vclass']) for v in a['viol']] == [(v['run'], v['vclass']) for v in b['viol']]
        print('determinism plain-vs-san %-12s: %s' % (profile, 'same' if ok else 'MISMATCH'))
        if not ok:
            bad += 1
    return 2 if bad else 0


def _apply(root, m):
    path = os.path.join(root, m['file'])
    with open(path) as f:
        s = f.read()
    if s.count(m['old']) != 1:
        raise K.HarnessError('mutant %s: pattern occurs %d times in %s' % (m['name'], s.count(m['old']), m['file']))
    with open(path, 'w') as f:
        f.write(s.replace(m['old'], m['new']))


def run_check_on(root, prop, out, runs=None, tier='quick'):
    env = dict(os.environ)
    env['VERIF_REPO'] = root
    env['VERIF_OUT'] = out
    cmd = [os.path.join(VERIF, 'bin', 'vcheck'), prop, '--tier', tier] + (['--runs', str(runs)] if runs else [])
    t0 = time.time()
    p = subprocess.run(cmd, stdout=subprocess.PIPE, stderr=subprocess.PIPE, text=True, env=env, timeout=3600)
    return p.returncode, p.stdout, p.stderr, time.time() - t0


def mutants(only=None, catalogue=None):
    with open(catalogue or os.path.join(VERIF, 'mutants', 'mutants.json')) as f:
        ms = json.load(f)
    if only:
        ms = [m for m in ms if only in m['name']]
    bad = 0
    rows = []
    for m in ms:
        scratch = tempfile.mkdtemp(prefix='acetime-mut-')
        try:
            shutil.copytree(os.path.join(B.REPO, 'src'), os.path.join(scratch, 'src'))
            if True:   # C08 (pysim) and C20 need tools/ whatever the mutant touches
                shutil.copytree(os.path.join(B.REPO, 'tools'), os.path.join(scratch, 'tools'),
                                ignore=shutil.ignore_patterns('__pycache__', 'archive', 'compare_*', 'validation'))
            try:
                _apply(scratch, m)
            except K.HarnessError as e:
                print('%-28s -- PATTERN-STALE %s' % (m['name'], e))
                bad += 1
                continue
            out = os.path.join(scratch, 'out')
            os.makedirs(out)
            for prop in m.get('breaks', []):
                rc, so, se, dt = run_check_on(scratch, prop, out)
                cls = ''
                for line in se.splitlines():
                    if line.startswith('[%s] ' % prop) and ': ' in line and 'tier' not in line:
                        cls = line.split('] ', 1)[1][:110]
                ok = rc == 1
                rows.append((m['name'], prop, 'CAUGHT' if ok else 'MISSED rc=%d' % rc, dt, cls))
                print('%-28s %s %-12s %5.1fs  %s' % rows[-1])
                if not ok:
                    bad += 1
                    sys.stdout.write(se[-1500:] + '\n')
            for prop in m.get('quiet', []):
                rc, so, se, dt = run_check_on(scratch, prop, out)
                ok = rc == 0
                rows.append((m['name'], prop, 'quiet' if ok else 'FALSE-ATTRIBUTION rc=%d' % rc, dt, ''))
                print('%-28s %s %-12s %5.1fs  %s' % rows[-1])
                if not ok:
                    bad += 1
                    sys.stdout.write(se[-1500:] + '\n')
        finally:
            shutil.rmtree(scratch, ignore_errors=True)
        sys.stdout.flush()
    print('%d mutant checks, %d unexpected' % (len(rows), bad))
    return 2 if bad else 0


def known(seed):
    """The known-findings path, exercised on scratch copies (the committed list is empty): a listed finding
    must print KNOWN-FINDING and leave exit 0; a different violation of the same property must still exit 1."""
    with open(os.path.join(VERIF, 'mutants', 'mutants.json')) as f:
        ms = {m['name']: m for m in json.load(f)}
    bad = 0
    scratch = tempfile.mkdtemp(prefix='acetime-known-')
    try:
        kf = os.path.join(scratch, 'known.json')
        with open(kf, 'w') as f:
            json.dump({'findings': [{
                'id': 'TEST-D4', 'property': 'C13', 'vclass': 'c13-exact',
                # every minimised D4 trace re-sets a clock that was already set; a drift bug needs one SET only
                'trace_regex': r'SET -?\d+\n(?:.*\n)*?(?:SET -?\d+|SETUP)\n',
                'what': 'setNow(T) ignored when T equals the stale internal second (self-test entry)'}], 'fixed': []}, f)
        for label, names, want_rc, want_known in (
                ('listed finding only', ['c13-revert-d4'], 0, True),
                ('listed finding plus a different violation', ['c13-revert-d4', 'c13-gt-1000'], 1, None)):
            root = os.path.join(scratch, label.replace(' ', '_'))
            shutil.copytree(os.path.join(B.REPO, 'src'), os.path.join(root, 'src'))
            for n in names:
                _apply(root, ms[n])
            out = os.path.join(root, 'out')
            os.makedirs(out)
            env = dict(os.environ)
            env.update({'VERIF_REPO': root, 'VERIF_OUT': out, 'VERIF_KNOWN': kf, 'VERIF_SEED': str(seed)})
            p = subprocess.run([os.path.join(VERIF, 'bin', 'vcheck'), 'C13', '--runs', '3000'], env=env,
                               stdout=subprocess.PIPE, stderr=subprocess.PIPE, text=True, timeout=3600)
            has_known = 'KNOWN-FINDING: property=C13' in p.stdout
            has_viol = 'VIOLATION property=C13' in p.stdout
            ok = p.returncode == want_rc and (want_known is None or has_known == want_known) and (has_viol == (want_rc == 1))
            print('known-findings %-45s exit %d known-line=%s violation-line=%s : %s'
                  % (label, p.returncode, has_known, has_viol, 'ok' if ok else 'UNEXPECTED'))
            if not ok:
                bad += 1
                print(p.stdout[-600:], p.stderr[-600:])
                for f in os.listdir(os.path.join(out, 'replays')) if os.path.isdir(os.path.join(out, 'replays')) else []:
                    with open(os.path.join(out, 'replays', f)) as fh:
                        print(json.load(fh)['minimised_trace'])
    finally:
        shutil.rmtree(scratch, ignore_errors=True)
    return 2 if bad else 0


def seeded(only=None):
    """Every independent seeded change under seeded/<id>/ must be reported (exit 1) by the quick tier of the
    property it breaks. Applied to scratch copies through bin/seedcheck; /repo is never touched."""
    root = os.path.join(VERIF, 'seeded')
    bad = 0
    n = 0
    for sid in sorted(os.listdir(root)):
        if only and only not in sid:
            continue
        if not os.path.exists(os.path.join(root, sid, 'patch.diff')):
            continue
        t0 = time.time()
        p = subprocess.run([os.path.join(VERIF, 'bin', 'seedcheck'), sid], stdout=subprocess.PIPE, stderr=subprocess.PIPE,
                           text=True, timeout=7200)
        n += 1
        first = [l for l in p.stdout.splitlines() if l.startswith('[') or l.startswith('seeded/')]
        print('%-42s %s  %5.1fs  %s' % (sid, 'CAUGHT' if p.returncode == 0 else 'MISSED', time.time() - t0,
                                       (first[2] if len(first) > 2 else '')[:120]))
        if p.returncode != 0:
            bad += 1
    print('%d seeded changes, %d missed' % (n, bad))
    return 2 if bad else 0


def refactorings(only=None):
    """Large behaviour-preserving refactorings written by sub-agents (benign/<id>/): every check of the properties
    they preserve must stay quiet."""
    root = os.path.join(VERIF, 'benign')
    bad = n = 0
    for bid in sorted(os.listdir(root)):
        if only and only not in bid:
            continue
        if not os.path.exists(os.path.join(root, bid, 'patch.diff')):
            continue
        env = dict(os.environ)
        env.update({'DIR': 'benign', 'MODE': 'quiet'})
        t0 = time.time()
        p = subprocess.run([os.path.join(VERIF, 'bin', 'seedcheck'), bid], stdout=subprocess.PIPE, stderr=subprocess.PIPE,
                           text=True, timeout=7200, env=env)
        n += 1
        print('%-42s %s  %5.1fs' % (bid, 'quiet' if p.returncode == 0 else 'ALARM', time.time() - t0))
        if p.returncode != 0:
            bad += 1
            print(p.stdout[-1500:])
    print('%d refactorings, %d raised an alarm' % (n, bad))
    return 2 if bad else 0


def main(which, seed):
    if which and which.startswith('refactorings'):
        return refactorings(which.split(':', 1)[1] if ':' in which else None)
    if which and which.startswith('seeded'):
        return seeded(which.split(':', 1)[1] if ':' in which else None)
    if which == 'known':
        return known(seed)
    if which == 'determinism':
        return determinism(seed)
    if which and which.startswith('mutants'):
        only = which.split(':', 1)[1] if ':' in which else None
        return mutants(only)
    if which and which.startswith('benign'):
        # property-preserving variants of the code: every listed check must stay quiet (no false alarms)
        only = which.split(':', 1)[1] if ':' in which else None
        return mutants(only, os.path.join(VERIF, 'mutants', 'benign.json'))
    raise K.HarnessError('selftest determinism | mutants[:name-substring]')
