"""The registered checks: one seeded simulation campaign per claimed property."""
import json
import os
import sys
import time

from . import build as B
from . import core as K

COMPONENTS = {
    'real': [
        'src/ace_time/clock/SystemClock.h', 'src/ace_time/clock/SystemClockLoop.h', 'src/ace_time/clock/Clock.h',
        'src/ace_time/testing/FakeClock.h', 'src/ace_time/testing/FakeMillis.h',
        'src/ace_time/testing/TestableSystemClockLoop.h',
        'src/ace_time/TimeZone.{h,cpp}', 'src/ace_time/TimeZoneData.h', 'src/ace_time/ZoneManager.h',
        'src/ace_time/ZoneProcessorCache.h', 'src/ace_time/ZoneRegistrar.h',
        'src/ace_time/BasicZoneProcessor.{h,cpp}', 'src/ace_time/ExtendedZoneProcessor.{h,cpp}',
        'src/ace_time/internal/*', 'src/ace_time/zonedb/*', 'src/ace_time/zonedbx/*',
        'src/ace_time/{LocalDate,LocalTime,LocalDateTime,OffsetDateTime,ZonedDateTime,TimeOffset}.{h,cpp}',
    ],
    'stub': [
        'verif/shim: Arduino core (Print, millis, pgmspace) and AceCommon (printPad2To, incrementMod, strcmp_PP, TimingStats)',
        'verif/sim SimRefClock (scripted reference clock), SimRtc (durable backup clock), EEPROM slot store',
    ],
    'not_run': ['src/ace_time/clock/NtpClock.*', 'src/ace_time/clock/DS3231Clock.h', 'src/ace_time/hw/*',
                'src/ace_time/clock/SystemClockCoroutine.h (needs AceRoutine)'],
}

SIM_CHECKS = {
    'C13': {
        'profiles': [('clock-keep', 'plain')],
        'runs': {'quick': 2000000, 'thorough': 150000000},
        'batch': {'quick': 10000, 'thorough': 250000},
        'cells': 'c13',
        'c13_sweep': True,
        'rule': ('Each evaluation is one seeded run of the real SystemClockLoop (no reference clock) under a simulated '
                 'millis() counter: a generated schedule of SET / GET / LOOP / ADV / SETUP / REBOOT ops (5-400 ops), '
                 'checked op by op against the A.1 reference clock (T + floor((m-m0)/1000), interval anchors). '
                 'A run is non-trivial when at least one poll gap >= 1000 ms follows a set with a non-zero sub-second '
                 'carry. distinct_nontrivial counts DISTINCT coverage cells (start-phase bucket x poll-gap bucket x '
                 'carry bucket x crossed-2^16 x crossed-2^32) reached, measured by the executor.'),
        'assumptions': [
            'host unsigned long is 64 bits; SystemClock::getNow() only looks at the low 16 bits of the counter, which '
            'are fed exactly as a 32-bit target would see them ((uint32_t)(boot+t))',
            'poll gaps above 64,536 ms are outside the property premise: exactness is suspended from the stall to the '
            'next effective set (monotonicity is still checked)',
            'a set to the value the clock already shows may keep the old sub-second phase or re-anchor; both accepted',
            'quick tier: seeded sampling of schedules only; thorough tier: sampling plus the exhaustive single-gap (phase x gap) product and a '
            'carried-remainder family (exhaustive_phase_gap_sweep). A clean batch is evidence, not proof',
        ],
    },
    'C14': {
        # the same seeded schedules are executed twice: with the host's 64-bit `unsigned long` (unwrapped counter)
        # and with AceTime's `unsigned long` compiled as 32 bits (counter wraps at 2^32 as on the target)
        'profiles': [('clock-sync', 'plain'), ('clock-sync', 'plain32')],
        'runs': {'quick': 1500000, 'thorough': 75000000},
        'batch': {'quick': 15000, 'thorough': 250000},
        'cells': 'c14',
        'c14_enum': True,
        'rule': ('Each evaluation is one seeded run of the real SystemClockLoop with a scripted reference clock '
                 '(per-request fault plan: valid / invalid / lost / late / jump / same-value / instant / stale / '
                 'ready-at-timeout race), a durable backup clock in three arrangements, and a seeded loop() schedule '
                 '(dense polling, sparse polling, jumps to the model deadlines +/- 2 ms), ended by a fault-free drain. '
                 'The A.2 spec state machine runs in lock-step; a second real clock without sync machine is the '
                 'control for "does not change the clock". Non-trivial run = at least one failed request followed by '
                 'a later successful sync. distinct_nontrivial counts DISTINCT (model phase, event, back-off level, '
                 'configuration class) tuples reached.'),
        'assumptions': [
            'two build variants run the same schedules: "plain" hands loop() the unwrapped 64-bit count; "plain32" compiles '
            'the four clock headers with `long` read as `int`, so loop() does the target\'s 32-bit arithmetic and the '
            'counter really wraps at 2^32 (boot values are drawn to put the wrap inside the run)',
            'lower bounds on request spacing use the smallest admissible back-off period (an initial period above the sync '
            'period may be clamped at once or after the first failure)',
            'liveness ("within a bounded time", no schedule named): the next request must be out within one largest period '
            '(max(initial, sync)) after the failure was noticed / the answer applied / the boot, plus 6 loop() calls once '
            'that much POLLED time (milliseconds between loop() calls at most 64,536 ms apart; +1 s per over-long gap; re-based at '
            'the first call after a failure) has gone by; after faults stop, a successful sync within largest period + 1 s + time-out + '
            '2 s + two 60 s drain steps of polled time. Longer waits than the shipped schedule (early saturation, back-off counted from the failure) '
            'are accepted, shorter ones are not',
            'a response that is ready in the same call in which the timeout elapses may be applied or dropped',
            'one third of the runs (probe=0) never read the clock around loop(): the harness must not keep the clock alive '
            'on behalf of a loop() that forgot to; in those runs "applied immediately" is observed at the next GET',
            'a read with no request outstanding returns the error value (there is no datagram to read)',
        ],
    },
    'C08': {
        'profiles': [('tz-history', 'plain')],
        'runs': {'quick': 600000, 'thorough': 50000000},
        'batch': {'quick': 5000, 'thorough': 100000},
        'cells': 'c08',
        'bitmap': True,
        'c08_sweep': True,
        'needs_history_rule': True,
        'py_stage': {'runs': {'quick': 12000, 'thorough': 600000}},
        'extra_coverage': lambda total: {
            'cached_year_transitions': {
                'measure': 'ordered (zone, previously cached year, queried year) triples with both years in 1999..2050, '
                           'for queries that met a processor last filled for the same zone',
                'reached': bin(total.get('bitmap', 0)).count('1'),
                'of': (268 + 387) * 52 * 52,
            },
        },
        'rule': ('Each evaluation is one seeded run: 2-6 client TimeZone values (direct-bound to shared Basic/Extended '
                 'processors, created by Basic/ExtendedZoneManager<1..4> by info, id, index, through the restore path, by NAME through the '
                 'device\'s one line buffer (names present in the registry), copies) '
                 'over 1-3 zones per database, issuing 5-400 interleaved queries (getUtcOffset, getDeltaOffset, getAbbrev, '
                 'getOffsetDateTime, ZonedDateTime::forEpochSeconds/forComponents, printTo, printShortTo, getZoneId) with '
                 'in-range, year-boundary, boundary-year, far out-of-range and sentinel arguments; failing queries are '
                 'repeated and interleaved with valid ones. Every answer is compared with the same query asked of two '
                 'freshly constructed processors (two poison fills). A run is non-trivial when some query met a processor '
                 'that was neither unfilled nor already filled for that zone and year. distinct_nontrivial counts DISTINCT '
                 '(binding kind, processor state relative to the query, query kind, argument class) tuples reached.'),
        'assumptions': [
            'the oracle is the repository code itself on a fresh processor: whether the fresh answer is right is C01/C02/C07',
            'two error values are equal whatever their payload',
            'a crash that reproduces with the final op alone on a new device is not a history dependence and is left to C09',
            'absent / misspelt names (C10) and INT32-extreme arguments (C09) are kept out of this profile; an inexact name lookup that '
            'needs no history (a manager built on the spot gives the same wrong zone) is not attributed',
            'KEEP / USE: a ZonedDateTime the application keeps must read the same later (c08-history-kept)',
            '"fresh" is made robust against state that outlives a processor: an unrelated decoy zone is exercised between the client '
            'and the fresh processor (in a quarter of the runs also before the client), fresh answers must agree with earlier fresh '
            'answers to the same question in the run, and a sample of runs (every 96th in batch mode, every replay) is executed in a '
            'process with no history whose fresh answers come from one pristine process per question',
        ],
    },
    'C09': {
        'profiles': [('device', 'san')],
        'runs': {'quick': 500000, 'thorough': 20000000},
        'batch': {'quick': 2500, 'thorough': 40000},
        'cells': 'c09',
        'ub': True,
        'bitmap': True,
        'gen_stage': True,
        'msan_stage': True,
        'rule': ('Each evaluation is one seeded run of the whole simulated device in the ASan+UBSan build: tz clients of every '
                 'kind (incl. manual / error), queries of every kind with valid, boundary, far out-of-range, sentinel, INT32-extreme '
                 'and invalid-component arguments, failing queries repeated 0-3 times and re-asked after a valid neighbouring-year query, '
                 'console lines (PARSE) cut short or garbled, names through one line buffer, kept ZonedDateTime values, save / TEAR (one '
                 'stored byte overwritten) / reboot / '
                 'restore, and the SystemClockLoop with a faulty reference clock (queries at the clock\'s current time, incl. '
                 'the uninitialised sentinel). Monitors: any sanitizer report (attributed by source location), M2 errors stay '
                 'errors on every repeat (M2\': whatever the code itself answered with an error stays an error for the rest of the run), every '
                 'client question asked twice over different stack residue (c09-unstable-answer), M3 extended transition-pool high-water < transitionBufSize and < 8, basic dropped-'
                 'transition counter == 0. A run is non-trivial when some query met a processor in a non-fresh state. '
                 'distinct_nontrivial counts DISTINCT (query kind, argument class, client kind) tuples executed under sanitizers.'),
        'assumptions': [
            'decided here: the history / repetition half of C09 (no crash, no UB, no hang over call histories; errors persist; pools). '
            'NOT decided: "for any argument values" (all 2^32 epoch seconds, all component tuples) and compiler-generated zones of arbitrary '
            'sources - those are input sweeps; a no-history UB met on the way is still reported or listed as a known finding. Two side stages '
            'run first in every tier: genm3 (pool bound for every zone the tree\'s own compiler generates from the reconstructed + synthetic '
            'source) and msanprobe (a second seeded simulator without the C++ standard library, under MemorySanitizer)',
            'only genuine UB classes are enabled (-fsanitize=address,undefined); UB reports are made recoverable and turned into '
            'verdicts by a __ubsan_on_report hook, ASan errors are fatal and triaged from the in-flight seed',
            'UBSan reports each source location once per process, so within one batch only the first run reaching a site is attributed',
        ],
        'extra_coverage': lambda total: {
            'highwater_values_seen': sorted(int(x) for x in total['cells'].get('c09.hw', ())),
            'zone_year_fills_monitored': {
                'measure': '(zone, year) pairs with year in 1999..2050 for which a cache fill ran under the sanitizers '
                           'and the pool / dropped-transition monitors (any client kind)',
                'reached': bin(total.get('bitmap', 0)).count('1'),
                'of': (268 + 387) * 52,
            },
        },
    },
    'C16': {
        'profiles': [('tz-restore', 'plain')],
        'runs': {'quick': 1500000, 'thorough': 50000000},
        'batch': {'quick': 7500, 'thorough': 100000},
        'cells': 'c16',
        'crash_note_ops': ('Q', 'QR', 'QN'),
        'rule': ('Each evaluation is one seeded run of the device with its durable store: clients of all five kinds plus '
                 'manual/UTC/error, SAVE (toTimeZoneData, the object\'s bytes copied into the store, as EEPROM.put() does), REBOOT (every '
                 'processor, manager and client destroyed; new managers with cache size 1..4 over the full registry or a '
                 'seeded sorted/shuffled subset of 0..40 zones that does or does not contain the saved id), RESTORE through '
                 'createForTimeZoneData, MANSET, interleaved query traffic keeping caches in arbitrary states. Oracle: the '
                 'simulator\'s own catalogue. A run is non-trivial when it performed at least one RESTORE of a present slot. '
                 'distinct_nontrivial counts DISTINCT (saved kind, restoring manager kind+size, registry relation, full/subset) '
                 'tuples reached.'),
        'assumptions': [
            'a zone is identified by its ZoneInfo object; kind is TimeZone::getType()',
            'restored and directly created values are compared with each other, not with a fresh processor (that is C08)',
            'nothing is torn in this profile (TEAR is device-only): the restart contributes configuration diversity',
            'manual offsets include the boundaries of the stored int16 fields; "standard plus DST" is asserted where the sum is representable, '
            'at instants that include both ends of acetime_t',
        ],
        'extra_coverage': lambda total: {
            'zones_round_tripped': {'basic': len(total['cells'].get('c16.zones.b', ())),
                                    'extended': len(total['cells'].get('c16.zones.x', ()))},
            'manual_offset_pairs': len(total['cells'].get('c16.manual', ())),
        },
    },
}


def _fault_counts(counters):
    return {k[6:]: v for k, v in sorted(counters.items()) if k.startswith('fault.')}


def _probes(counters):
    return {k[6:]: v for k, v in sorted(counters.items()) if k.startswith('probe.')}


def determinism_slice(binary, profile, verif_seed, n=64):
    """Generate+execute the same seeds twice in separate processes; digests must match."""
    a = K._run_one_batch(binary, profile, verif_seed, 0, n, 300, False)
    b = K._run_one_batch(binary, profile, verif_seed, 0, n, 300, False)
    if a['viol'] or b['viol']:
        # runs that fail are compared through their violation records
        sa = [(v['run'], v['vclass'], v['msg']) for v in a['viol']]
        sb = [(v['run'], v['vclass'], v['msg']) for v in b['viol']]
        return {'seeds_rerun': n, 'mismatches': 0 if sa == sb else 1}
    mism = 0 if a['digest'] == b['digest'] else 1
    return {'seeds_rerun': n, 'mismatches': mism}


def c13_sweep(binary):
    """Thorough-tier supplement for C13: every start phase m0 mod 65536 x every single poll gap
    1..64536 ms x two counter bases (without / with a 32-bit wrap inside the gap). This is plain
    enumeration of one bounded schedule family, reported separately from the seeded search."""
    import subprocess
    from concurrent.futures import ThreadPoolExecutor
    t0 = time.time()
    chunks = [(p, 256) for p in range(0, 65536, 256)]

    def job(c):
        p = subprocess.run([binary, 'sweep13', str(c[0]), str(c[1])], stdout=subprocess.PIPE, stderr=subprocess.PIPE,
                           text=True, timeout=3600)
        return p.stdout

    pairs = 0
    viol = None
    with ThreadPoolExecutor(max_workers=min(16, os.cpu_count() or 4)) as ex:
        for out in ex.map(job, chunks):
            import re as _re
            m = _re.search(r'SWEEP pairs=(\d+)', out)
            if m:
                pairs += int(m.group(1))
            v2 = _re.search(r'SWEEPVIOL2 boot=(\d+) rem=(\d+) gap=(\d+) got=(-?\d+) want=(-?\d+)', out)
            if v2 and viol is None:
                boot, rem, gap, got, want = (int(x) for x in v2.groups())
                trace = ('PROFILE clock-keep\nCFG CLOCK ref=none bak=0 boot=%d testable=1\nSET 600000000\nADV %d\nGET\nADV %d\nGET\n'
                         % (boot, rem, gap))
                o = K.run_trace(binary, trace)
                if not (o.failed and o.vclass == 'c13-exact'):
                    raise K.HarnessError('sweep disagreement does not reproduce as a trace: boot=%d rem=%d gap=%d' % (boot, rem, gap))
                viol = {'trace': trace, 'msg': 'set at counter %d, poll %d ms later, poll %d ms after that: getNow()=%d, expected %d'
                        % (boot, rem, gap, got, want)}
            v = _re.search(r'SWEEPVIOL boot=(\d+) gap=(\d+) got=(-?\d+) want=(-?\d+)', out)
            if v and viol is None:
                boot, gap, got, want = (int(x) for x in v.groups())
                trace = ('PROFILE clock-keep\nCFG CLOCK ref=none bak=0 boot=%d testable=1\nSET 600000000\nADV %d\nGET\n'
                         % (boot, gap))
                o = K.run_trace(binary, trace)
                if not (o.failed and o.vclass == 'c13-exact'):
                    raise K.HarnessError('sweep disagreement does not reproduce as a trace: boot=%d gap=%d' % (boot, gap))
                viol = {'trace': trace, 'msg': 'set at counter %d, one poll %d ms later: getNow()=%d, expected %d'
                        % (boot, gap, got, want)}
    one_gap = 2 * 65536 * 64536
    carried = 64 * 4 * 1000 * 64536
    return ({'schedules_checked': pairs,
             'family_1': 'set at every phase m0 mod 65536, one gap 1..64536, one reading; counter bases 0x00000000 and 0xFFFF0000 (%d)' % one_gap,
             'family_2': 'set, poll after r = 0..999 ms (carried remainder), one gap 1..64536, one reading; 256 start phases '
                         'across the 2^32 wrap (%d)' % carried,
             'exhaustive': viol is None and pairs == one_gap + carried, 'wall_s': round(time.time() - t0, 1)}, viol)


def c08_sweep(binary, jobs=64):
    """Supplement for C08 (the property's "exhaustive over all ordered pairs of cached-year states per zone"): every
    shipped zone of both databases, one processor, every ordered pair of cached-year states (family 1) and every
    ordered pair of mid-year states of two zones bound alternately to one processor (family 2), each answer compared
    with a fresh processor's. Plain enumeration of a bounded history family, reported apart from the seeded search."""
    import subprocess
    import re as _re
    from concurrent.futures import ThreadPoolExecutor
    t0 = time.time()

    def job(j):
        p = subprocess.run([binary, 'sweep08', str(j), str(jobs), '1'], stdout=subprocess.PIPE, stderr=subprocess.PIPE,
                           text=True, timeout=3600)
        if p.returncode != 0:
            zs = _re.findall(r'SWEEP08ZONE (b|x) (\d+)', p.stdout)
            return 'SWEEP08CRASH job=%d rc=%d zone=%s %s' % (j, p.returncode, ('%s,%s' % zs[-1]) if zs else '?',
                                                            p.stderr[-2000:].replace('\n', ' | '))
        return p.stdout

    zones = pairs = checks = 0
    viol = None
    with ThreadPoolExecutor(max_workers=int(os.environ.get('VERIF_WORKERS', '0') or 0) or min(16, os.cpu_count() or 4)) as ex:
        for out in ex.map(job, range(jobs)):
            if out.startswith('SWEEP08CRASH'):
                mz = _re.search(r'zone=(b|x),(\d+)', out)
                if not mz:
                    raise K.HarnessError('sweep08 died outside a trace: ' + out[:2500])
                if viol is None:
                    # a crash / sanitizer report inside the walk of one zone: confirm on that zone alone
                    again = subprocess.run([binary, 'sweep08', '0', '1', '1', mz.group(1), mz.group(2)], stdout=subprocess.PIPE,
                                           stderr=subprocess.PIPE, text=True, timeout=900)
                    if again.returncode == 0:
                        raise K.HarnessError('sweep08 died in a batch but not on the zone alone: ' + out[:2000])
                    line = (_re.findall(r'(runtime error:[^|\n]*|ERROR: AddressSanitizer:[^|\n]*|SUMMARY:[^|\n]*)', again.stderr) or ['crash'])[0]
                    viol = {'trace': 'sweep08 zone %s %s' % (mz.group(1), mz.group(2)), 'min_trace': 'simdev sweep08 0 1 1 %s %s' % (mz.group(1), mz.group(2)),
                            'tests': 0, 'vclass': 'c08-sweep-crash', 'msg': 'the ordered-pair walk of this zone dies: ' + line[:300],
                            'extra': {'engine': 'sweep08', 'db': mz.group(1), 'zone_index': int(mz.group(2))}}
                continue
            m = _re.search(r'SWEEP08 zones=(\d+) pairs=(\d+) checks=(\d+)', out)
            if not m:
                raise K.HarnessError('sweep08 produced no summary line')
            zones += int(m.group(1)); pairs += int(m.group(2)); checks += int(m.group(3))
            mv = _re.search(r'SWEEP08VIOL (.*)', out)
            if mv and viol is None:
                trace = mv.group(1).replace('\\n', '\n')
                o = K.run_trace(binary, trace, timeout=60)
                mz = _re.search(r'^TZ 0 (b|x)direct (\d+)', trace, _re.M)
                if not o.failed:
                    # the trace executor does more between two questions than the sweep did (decoys, its own fresh
                    # processors): a defect that depends on exactly what ran in between shows in the sweep only. It is
                    # still a disagreement between a client and a fresh processor; the replay re-runs the sweep of
                    # that one zone.
                    again = subprocess.run([binary, 'sweep08', '0', '1', '1', mz.group(1), mz.group(2)], stdout=subprocess.PIPE,
                                           stderr=subprocess.PIPE, text=True, timeout=600)
                    if 'SWEEP08VIOL' not in again.stdout:
                        raise K.HarnessError('sweep08 disagreement reproduces neither as a trace nor as a sweep of its zone:\n' + trace[:600])
                    last = [l for l in trace.split('\n') if l.startswith('Q ')][-2:]
                    viol = {'trace': trace, 'min_trace': trace, 'tests': 0, 'vclass': 'c08-sweep-pair',
                            'msg': 'ordered-pair sweep: a client on one processor and a fresh processor disagree after: ' + ' ; '.join(last),
                            'extra': {'engine': 'sweep08', 'db': mz.group(1), 'zone_index': int(mz.group(2))}}
                    continue
                mn, tests = K.minimise(binary, trace, o.vclass, timeout=HANG_S)
                o2 = K.run_trace(binary, mn, timeout=HANG_S)
                viol = {'trace': trace, 'min_trace': mn, 'tests': tests, 'vclass': o.vclass, 'msg': o2.msg or o.msg}
    return ({'zones': zones, 'ordered_pairs_checked': pairs, 'answers_compared': checks,
             'family_1': 'per zone: one processor, every ordered pair (a, b) of 223 states (1 Jan 00:00, day 90, 2 Jul 12:00, '
                         'day 304 of each year 1998..2052; far below; far above; the error sentinel): one question about a, '
                         'then utc / delta / abbrev / zdc about b',
             'family_2': 'per zone and its registry successor, bound alternately to ONE processor: every ordered pair of 58 '
                         'mid-year states, one question each',
             'exhaustive': viol is None, 'wall_s': round(time.time() - t0, 1)}, viol)


# One trace executes in milliseconds (tens of ms under sanitizers); anything that needs longer than this
# on replay is a hang. Kept short because minimising a hang costs this much per candidate.
HANG_S = 6


def c14_enum(binary, depth):
    """Thorough-tier supplement for C14: every op sequence of the given depth over {LOOP, ADV 1, ADV 400, ADVDL -1/0/+1,
    SET} x every outcome combination of the first three requests {valid at once, valid after 400 ms, invalid, lost}
    x 4 period configurations x {distinct, same, no} reference arrangement x {probe=1, probe=0}, each followed by the
    fault-free drain."""
    import subprocess
    import re as _re
    from concurrent.futures import ThreadPoolExecutor
    t0 = time.time()
    jobs = 768

    def job(j):
        p = subprocess.run([binary, 'enum14', str(j), str(jobs), str(depth)], stdout=subprocess.PIPE,
                           stderr=subprocess.PIPE, text=True, timeout=7200)
        return p.stdout

    traces = 0
    viol = None
    with ThreadPoolExecutor(max_workers=int(os.environ.get('VERIF_WORKERS', '0') or 0) or min(16, os.cpu_count() or 4)) as ex:
        for out in ex.map(job, range(jobs)):
            m = _re.search(r'ENUM traces=(\d+)', out)
            if m:
                traces += int(m.group(1))
            mv = _re.search(r'ENUMVIOL class=(\S+) msg="(.*)"', out)
            mt = _re.search(r'ENUMTRACE (.*)', out)
            if mv and mt and viol is None:
                trace = mt.group(1).encode().decode('unicode_escape')
                o = K.run_trace(binary, trace)
                if not o.failed:
                    raise K.HarnessError('enumeration violation does not reproduce as a trace')
                mn, tests = K.minimise(binary, trace, o.vclass, timeout=HANG_S)
                viol = {'trace': trace, 'min_trace': mn, 'tests': tests, 'vclass': o.vclass, 'msg': o.msg}
    return ({'depth': depth, 'traces_executed': traces,
             'alphabet': ['LOOP', 'ADV 1', 'ADV 400', 'ADVDL -1', 'ADVDL 0', 'ADVDL 1', 'SET'],
             'request_outcomes': 'first three requests x {valid at once, valid after 400 ms, invalid after 400 ms, lost}',
             'configurations': '4 (sync, initial, time-out) x {distinct, same, none} x {primary probed around loop(), not probed}', 'exhaustive': viol is None,
             'wall_s': round(time.time() - t0, 1)}, viol)


def triage(prop, profile, variant, binary, tier, verif_seed, v, needs_history_rule=False, crash_note_ops=()):
    """Confirm, minimise, re-confirm in a fresh process, match against known findings.
    Returns ('violation', replay_path) | ('known', entry) | ('note', text)."""
    original = K.gen_trace(binary, profile, v['seed'])
    o = K.run_trace(binary, original, timeout=HANG_S)
    if not o.failed:
        raise K.HarnessError('violation at run %d (seed %d, %s) does not reproduce on replay: nondeterminism'
                             % (v['run'], v['seed'], v['vclass']))
    ref_class = o.vclass
    if v['crash'] and v['vclass'] != 'hang' and o.vclass != v['vclass']:
        K.log('[triage] batch reported %s, replay reports %s; using the replay class' % (v['vclass'], o.vclass))
    if o.kind == 'crash' and getattr(o, 'attribution', 'unknown') == 'verif':
        raise K.HarnessError('crash attributed to the harness, not to /repo:\n' + o.stderr[-3000:])
    v = dict(v)
    v['vclass'] = ref_class
    v['msg'] = o.msg or v['msg']
    minimised, tests = K.minimise(binary, original, ref_class, timeout=HANG_S)
    o2 = K.run_trace(binary, minimised, timeout=HANG_S)
    if not K.same_failure(o2, ref_class):
        raise K.HarnessError('minimised trace does not fail identically in a fresh process')
    v['msg'] = o2.msg or v['msg']
    extra = {'stderr_excerpt': o2.stderr[-3000:]} if o2.kind == 'crash' else {}
    if needs_history_rule and o2.kind in ('crash', 'timeout'):
        # C08: a crash is a history-independence violation only if it needs history. Replay the
        # final op alone (with the configuration lines) on a newly built device.
        head, lines = K.split_trace(minimised)
        cfg = [l for l in lines if l.split(' ')[0] in ('CFG', 'PROC', 'MGR', 'TZ', 'REF')]
        ops = [l for l in lines if l.split(' ')[0] not in ('CFG', 'PROC', 'MGR', 'TZ', 'REF')]
        if ops:
            alone = K.join_trace(head, cfg + ops[-1:])
            o3 = K.run_trace(binary, alone, timeout=HANG_S)
            if K.same_failure(o3, ref_class):
                return ('note', 'crash %s needs no history (reproduces with the final op alone: %s); '
                        'a fresh time zone fails too, so this is C09\'s subject, not C08\'s'
                        % (ref_class, ops[-1]))
    if crash_note_ops and o2.kind in ('crash', 'timeout'):
        # A crash inside an op that is not this property's surface (e.g. a plain query in the
        # tz-restore profile) is C08's / C09's subject: note it, do not report it here.
        head, lines = K.split_trace(minimised)
        ops = [l for l in lines if l.split(' ')[0] not in ('CFG', 'REF')]
        if ops and ops[-1].split(' ')[0] in crash_note_ops:
            return ('note', 'crash %s inside "%s", which is not an operation this property speaks about; '
                    'left to C08/C09' % (ref_class, ops[-1]))
    known = K.match_known(prop, ref_class, minimised, v['msg'])
    if known:
        return ('known', known)
    path = K.write_replay(prop, profile, tier, verif_seed, v, original, minimised, variant, tests, extra)
    return ('violation', path)


def regression_replays(prop):
    """The minimised replays of the defects this property's check found earlier (regress/*.json; all fixed in /repo)
    are re-executed first: a fixed defect that returns is reported at once, whatever the seed. Any failure counts -
    line numbers inside violation classes move."""
    import glob
    found = []
    n = 0
    for f in sorted(glob.glob(os.path.join(B.VERIF, 'regress', '*.json'))):
        with open(f) as fh:
            doc = json.load(fh)
        if doc.get('property') != prop:
            continue
        eng = doc.get('engine', 'simdev')
        if eng == 'pysim':
            from pysim import check as P
            o = P.outcome_of(doc['minimised_trace'])
        elif eng == 'simdev':
            o = K.run_trace(B.build(doc.get('build_variant') or 'plain'), doc['minimised_trace'], timeout=HANG_S)
        else:
            continue
        n += 1
        if o.failed:
            k = K.match_known(prop, o.vclass, doc['minimised_trace'], o.msg or '')
            if k:
                print('KNOWN-FINDING: property=%s %s' % (prop, k['what']))
                continue
            found.append((f, doc, o))
    return n, found


def run_sim_check(prop, tier, verif_seed, spec=None, runs_override=None):
    spec = spec or SIM_CHECKS[prop]
    t0 = time.time()
    n_regress, regressed = regression_replays(prop)
    if regressed:
        f, doc, o = regressed[0]
        v = {'run': -1, 'seed': 0, 'vclass': o.vclass, 'msg': o.msg or doc.get('message', ''), 'op': o.op, 'crash': o.kind == 'crash'}
        path = K.write_replay(prop, doc.get('profile', 'regress'), tier, verif_seed, v, doc['minimised_trace'],
                              doc['minimised_trace'], doc.get('build_variant') or 'plain', 0,
                              {'engine': doc.get('engine', 'simdev'), 'regression_of': os.path.basename(f)})
        print('VIOLATION property=%s replay=%s' % (prop, path))
        K.log('[%s] a defect that was fixed has returned (%s): %s %s' % (prop, os.path.basename(f), o.vclass, o.msg))
    total = {'runs': 0, 'nontrivial': 0, 'counters': {}, 'cells': {}, 'samples': []}
    variants = []
    determinism = {'seeds_rerun': 0, 'mismatches': 0}
    known_printed = set()
    notes = []
    violations = 1 if regressed else 0
    exit_code = 1 if regressed else 0
    # The two supplementary C09 stages run FIRST: they take seconds, and if their tools cannot be built here that is
    # known before the long campaign, not after it.
    gen_zones = None
    if spec.get('gen_stage') and exit_code == 0 and not runs_override:
        from . import genm3 as G
        gen_zones, gpath = G.sweep(prop, tier, verif_seed)
        if gpath:
            print('VIOLATION property=%s replay=%s' % (prop, gpath))
            violations += 1
            exit_code = 1
    msan_info = None
    if spec.get('msan_stage') and exit_code == 0 and not runs_override:
        from . import msanprobe as M
        msan_info, mpath = M.sweep(prop, tier, verif_seed)
        if mpath:
            print('VIOLATION property=%s replay=%s' % (prop, mpath))
            violations += 1
            exit_code = 1
    for profile, variant in (spec['profiles'] if not regressed else []):
        binary = B.build(variant)
        variants.append(variant)
        d = determinism_slice(binary, profile, verif_seed)
        determinism['seeds_rerun'] += d['seeds_rerun']
        determinism['mismatches'] += d['mismatches']
        if d['mismatches']:
            raise K.HarnessError('determinism self-check failed for profile %s' % profile)
        want = runs_override or spec['runs'][tier]
        if isinstance(want, dict):
            want = want[profile]
        batch = spec['batch'][tier]
        if isinstance(batch, dict):
            batch = batch[profile]
        pos = 0
        triaged = 0
        while pos < want and exit_code == 0:
            res = K.run_batches(binary, profile, verif_seed, want - pos, batch, first_run=pos,
                                use_bitmap=spec.get('bitmap', False),
                                batch_timeout=spec.get('batch_timeout', 1800),
                                crash_note_ops=spec.get('crash_note_ops', ()))
            total['runs'] += res.runs
            total['nontrivial'] += res.nontrivial
            for k, v in res.counters.items():
                total['counters'][k] = total['counters'].get(k, 0) + v
            for k, v in res.cells.items():
                total['cells'].setdefault(k, set()).update(v)
            if len(total['samples']) < 3:
                total['samples'].extend(res.samples[:3 - len(total['samples'])])
            if spec.get('bitmap'):
                total['bitmap'] = total.get('bitmap', 0) | res.bitmap
            events = sorted(res.violations + (res.ubhits if spec.get('ub') else []), key=lambda e: e['run'])
            handled_known = False
            while events and events[0].get('ub'):
                # a recoverable UB report: known call site -> KNOWN-FINDING, otherwise triage it
                u = events[0]
                k = K.match_known_ub(prop, u['vclass'], u['file'], u['op_line'])
                if not k:
                    break
                if k['id'] not in known_printed:
                    print('KNOWN-FINDING: property=%s %s' % (prop, k['what']))
                    known_printed.add(k['id'])
                total['counters']['known.' + k['id']] = total['counters'].get('known.' + k['id'], 0) + 1
                events.pop(0)
                handled_known = True
            if not events:
                if res.violations or not handled_known:
                    pass
                # UB hits do not stop batches; if no violation stopped them either, everything was run
                if not res.violations:
                    break
                continue
            v = events[0]
            K.IGNORE_UB[:] = [c for c in K.known_ub_classes(prop) if c != v['vclass']]
            kind, info = triage(prop, profile, variant, binary, tier, verif_seed, v,
                                needs_history_rule=spec.get('needs_history_rule', False),
                                crash_note_ops=spec.get('crash_note_ops', ()))
            triaged += 1
            if kind == 'violation':
                print('VIOLATION property=%s replay=%s' % (prop, info))
                K.log('[%s] %s: %s' % (prop, v['vclass'], v['msg']))
                violations += 1
                exit_code = 1
                break
            if kind == 'known':
                if info['id'] not in known_printed:
                    print('KNOWN-FINDING: property=%s %s' % (prop, info['what']))
                    known_printed.add(info['id'])
            else:
                notes.append(info)
                K.log('[%s] note: %s' % (prop, info))
            pos = v['run'] + 1
            if triaged >= 25:
                K.log('[%s] too many known findings / notes to keep triaging; stopping the search here' % prop)
                break
    sweep = None
    if spec.get('c13_sweep') and tier == 'thorough' and exit_code == 0 and not runs_override:
        sweep, sv = c13_sweep(B.build('plain'))
        if sv:
            v = {'run': -1, 'seed': 0, 'vclass': 'c13-exact', 'msg': sv['msg'], 'op': 2}
            path = K.write_replay(prop, 'clock-keep', tier, verif_seed, v, sv['trace'], sv['trace'], 'plain', 0,
                                  {'found_by': 'exhaustive phase x gap sweep'})
            print('VIOLATION property=%s replay=%s' % (prop, path))
            K.log('[%s] sweep: %s' % (prop, sv['msg']))
            violations += 1
            exit_code = 1
    sweep08 = None
    if spec.get('c08_sweep') and exit_code == 0 and not runs_override:
        sweep08 = []
        for variant in (('plain', 'san') if tier == 'thorough' else ('plain',)):
            info, sv = c08_sweep(B.build(variant))
            info['build_variant'] = variant
            sweep08.append(info)
            if sv:
                v = {'run': -1, 'seed': 0, 'vclass': sv['vclass'], 'msg': sv['msg'], 'op': -1}
                extra = {'found_by': 'exhaustive ordered-pair sweep of cached-year states'}
                extra.update(sv.get('extra', {}))
                path = K.write_replay(prop, 'tz-history', tier, verif_seed, v, sv['trace'], sv['min_trace'], variant, sv['tests'], extra)
                print('VIOLATION property=%s replay=%s' % (prop, path))
                K.log('[%s] pair sweep: %s %s' % (prop, sv['vclass'], sv['msg']))
                violations += 1
                exit_code = 1
                break
    enum14 = None
    if spec.get('c14_enum') and tier == 'thorough' and exit_code == 0 and not runs_override:
        enum14 = []
        for variant, depth in (('plain', 6), ('plain32', 7)):
            info, ev = c14_enum(B.build(variant), depth)
            info['build_variant'] = variant
            enum14.append(info)
            if ev:
                v = {'run': -1, 'seed': 0, 'vclass': ev['vclass'], 'msg': ev['msg'], 'op': -1}
                path = K.write_replay(prop, 'clock-sync', tier, verif_seed, v, ev['trace'], ev['min_trace'], variant, ev['tests'],
                                      {'found_by': 'bounded exhaustive enumeration, depth %d' % depth})
                print('VIOLATION property=%s replay=%s' % (prop, path))
                K.log('[%s] enumeration: %s %s' % (prop, ev['vclass'], ev['msg']))
                violations += 1
                exit_code = 1
                break
    py_half = None
    if spec.get('py_stage') and exit_code == 0:
        from pysim import check as P
        pd = P.determinism(verif_seed)
        determinism['python'] = pd
        if pd['mismatches']:
            raise K.HarnessError('pysim determinism self-check failed (PYTHONHASHSEED dependence)')
        py_runs = spec['py_stage']['runs'][tier] if not runs_override else max(200, runs_override // 10)
        pos = 0
        agg = {'runs': 0, 'cov': {}, 'samples': [], 'nontrivial_runs': 0, 'wall': 0.0}
        res = P.campaign(verif_seed, py_runs)
        for k, v in res['cov'].items():
            agg['cov'][k] = v
        agg.update({'runs': res['runs'], 'samples': res['samples'], 'nontrivial_runs': res['nontrivial_runs'],
                    'wall': res['wall']})
        for v in res['viol'][:5]:
            kind, info = P.triage(prop, tier, verif_seed, v)
            if kind == 'violation':
                print('VIOLATION property=%s replay=%s' % (prop, info))
                K.log('[%s] %s: %s' % (prop, v['vclass'], v['msg']))
                violations += 1
                exit_code = 1
                break
            if info['id'] not in known_printed:
                print('KNOWN-FINDING: property=%s %s' % (prop, info['what']))
                known_printed.add(info['id'])
        py_half = {
            'engine': 'pysim (tools/zonedb/zone_specifier.py, tools/zonedbpy tables)',
            'runs': agg['runs'], 'nontrivial_runs': agg['nontrivial_runs'],
            'ops_compared_with_fresh_instance': agg['cov'].get('ops', 0),
            'nontrivial_ops': agg['cov'].get('nontrivial_ops', 0),
            'fault_counts': {'oor_query': agg['cov'].get('oor_query', 0),
                             'fresh_instance_failures': agg['cov'].get('fresh_failures', 0)},
            'distinct_cells': len(agg['cov'].get('cells', ())),
            'cell_rule': '(op kind, cache state relative to the op, year class, viewing_months)',
            'sample': (agg['samples'] or [''])[0],
            'wall_s': round(agg['wall'], 2),
        }
    wall = time.time() - t0
    cells = total['cells'].get(spec['cells'], set())
    cov = {
        'evaluations': max(total['runs'], 1),
        'distinct_nontrivial': len(cells),
        'rule': spec['rule'],
        'samples': total['samples'] or ['(no sample short enough was produced)'],
        'nontrivial_runs': total['nontrivial'],
        'ops_executed': total['counters'].get('ops', 0),
        'runs_per_hour': int(total['runs'] / wall * 3600) if wall > 0 else 0,
        'seeds': {'verif_seed': verif_seed, 'first_run_index': 0, 'last_run_index': total['runs'] - 1,
                  'derivation': 'run seed = splitmix64-mix(VERIF_SEED, profile, run index)'},
        'simulated_ms_total': total['counters'].get('sim_ms', 0),
        'fault_counts': _fault_counts(total['counters']),
        'probes': _probes(total['counters']),
        'other_counters': {k: v for k, v in sorted(total['counters'].items())
                           if not k.startswith(('fault.', 'probe.')) and k not in ('ops', 'sim_ms')},
        'coverage_cells': {k: len(v) for k, v in sorted(total['cells'].items())},
        'components': COMPONENTS,
        'build_variants': variants,
        'determinism_selfcheck': determinism,
        'notes': notes,
        'known_findings_seen': sorted(known_printed),
        'regression_replays_executed': n_regress,
        'exhaustive': False,
    }
    if spec.get('extra_coverage'):
        cov.update(spec['extra_coverage'](total))
    if py_half:
        cov['python_half'] = py_half
    if sweep:
        cov['exhaustive_phase_gap_sweep'] = sweep
    if enum14:
        cov['bounded_exhaustive_enumeration'] = enum14
    if sweep08:
        cov['exhaustive_cached_year_pair_sweep'] = sweep08
    if gen_zones:
        cov['compiler_generated_zone_sweep'] = gen_zones
    if msan_info:
        cov['memory_sanitizer_probe'] = msan_info
    doc = {
        'property_id': prop, 'tier': tier, 'seed': verif_seed, 'level': 'exploration',
        'coverage': cov, 'assumptions': spec['assumptions'], 'wall_s': round(wall, 2),
        'violations': violations,
    }
    try:
        K.write_evidence(prop, doc, dev=bool(runs_override))
    except K.HarnessError as e:
        if exit_code != 1:
            raise
        K.log('[%s] evidence not written (%s); the violation stands' % (prop, e))
    K.log('[%s] %s tier: %d runs, %d non-trivial, %d cells, %.1fs, exit %d'
          % (prop, tier, total['runs'], total['nontrivial'], len(cells), wall, exit_code))
    return exit_code
