"""vcheck entry point. Exit 0 = held on everything explored; 1 = VIOLATION; 2 = harness error."""
import argparse
import json
import os
import sys
import traceback

from . import build as B
from . import core as K
from . import checks as C


def cmd_check(prop, tier, seed, runs=None):
    if prop in C.SIM_CHECKS:
        return C.run_sim_check(prop, tier, seed, runs_override=runs)
    if prop == 'C20':
        from detcompile import check as D
        return D.run(prop, tier, seed)
    raise K.HarnessError('no check registered for ' + prop)


def cmd_replay(path):
    with open(path) as f:
        doc = json.load(f)
    variant = doc.get('build_variant', 'plain')
    if doc.get('engine') == 'pysim':
        from pysim import check as P
        o = P.outcome_of(doc['minimised_trace'])
    elif doc.get('engine') == 'detcompile':
        from detcompile import check as D
        return D.replay(doc, path)
    elif doc.get('engine') == 'sweep08':
        import subprocess
        binary = B.build(variant)
        p = subprocess.run([binary, 'sweep08', '0', '1', '1', doc['db'], str(doc['zone_index'])], stdout=subprocess.PIPE,
                           stderr=subprocess.PIPE, text=True, timeout=900)
        print('replay of %s (%s): ordered-pair sweep of zone %s %d' % (path, doc['property'], doc['db'], doc['zone_index']))
        if 'SWEEP08VIOL' in p.stdout or p.returncode != 0:
            print('REPRODUCED: ' + doc['message'])
            print('VIOLATION property=%s replay=%s' % (doc['property'], path))
            return 1
        print('not reproduced on the current tree')
        return 0
    elif doc.get('engine') == 'msanprobe':
        from . import msanprobe as M
        return M.replay(doc, path)
    elif doc.get('engine') == 'genm3':
        from . import genm3 as G
        return G.replay(doc, path)
    else:
        binary = B.build(variant)
        K.IGNORE_UB[:] = [c for c in K.known_ub_classes(doc['property']) if c != doc['violation_class']]
        o = K.run_trace(binary, doc['minimised_trace'], timeout=120)
    print('replay of %s (%s, class %s):' % (path, doc['property'], doc['violation_class']))
    print(doc['minimised_trace'])
    if o.failed and o.vclass == doc['violation_class']:
        print('REPRODUCED %s: %s' % (o.vclass, o.msg))
        if o.stderr:
            print(o.stderr[-2500:])
        print('VIOLATION property=%s replay=%s' % (doc['property'], path))
        return 1
    if o.failed:
        print('DIFFERENT FAILURE %s: %s' % (o.vclass, o.msg))
        print('VIOLATION property=%s replay=%s' % (doc['property'], path))
        return 1
    print('not reproduced on the current tree (outcome: %s)' % o.kind)
    return 0


def main(argv):
    ap = argparse.ArgumentParser(prog='vcheck')
    ap.add_argument('what')
    ap.add_argument('arg', nargs='?')
    ap.add_argument('--tier', default=os.environ.get('VERIF_TIER', 'quick'), choices=['quick', 'thorough'])
    ap.add_argument('--runs', type=int, default=None, help='override the number of runs (development)')
    a = ap.parse_args(argv)
    raw = os.environ.get('VERIF_SEED', '1') or '1'
    try:
        seed = int(raw)
    except ValueError:
        import hashlib
        seed = int.from_bytes(hashlib.sha256(raw.encode()).digest()[:7], 'big')   # any string is a seed
        sys.stderr.write('VERIF_SEED=%r is not an integer; using %d\n' % (raw, seed))
    try:
        if a.what == 'replay':
            return cmd_replay(a.arg)
        if a.what == 'build':
            for v in ('plain', 'san'):
                print(B.build(v))
            return 0
        if a.what == 'all':
            worst = 0
            for prop in ('C13', 'C14', 'C08', 'C16', 'C09', 'C20'):
                rc = cmd_check(prop, a.tier, seed, a.runs)
                worst = max(worst, rc)
            return worst
        if a.what == 'selftest':
            from . import selftest
            return selftest.main(a.arg, seed)
        return cmd_check(a.what, a.tier, seed, a.runs)
    except K.HarnessError as e:
        sys.stderr.write('HARNESS-ERROR: %s\n' % e)
        return 2
    except B.BuildError as e:
        sys.stderr.write('HARNESS-ERROR (build): %s\n' % e)
        return 2
    except Exception:
        traceback.print_exc()
        return 2


if __name__ == '__main__':
    sys.exit(main(sys.argv[1:]))
