"""Regenerates /verif/MANIFEST.json from one table so it stays valid and current."""
import json
import os

VERIF = os.path.dirname(os.path.dirname(os.path.abspath(__file__)))

NA = {
    'C01': 'pure function of (zone, instant) compared with an external compiler (zic); no schedule, clock, fault or history in the statement (the cache behind it is C08\'s subject)',
    'C02': 'as C01 for the basic processor plus a static comparison of two tables; an input sweep, nothing to schedule or fault',
    'C03': 'batch compiler: whole-file reads, in-memory transformation, whole-file writes; a pure function of the source text with an external oracle (zic)',
    'C04': 'pointwise equality of two deterministic functions over (zone, instant, options); nothing to schedule or fault',
    'C05': 'algebraic round-trip identity over (zone, epoch seconds); the hidden cache state it passes through is covered as C08',
    'C06': 'closed-form integer date arithmetic; exhaustive enumeration is the right tool and that is model checking, not this family',
    'C07': 'pure function of (zone, local date-time); gaps and overlaps are data, not faults',
    'C10': 'pure function of (registry, query); termination is input-determined (needs a particular size and probe, not a schedule)',
    'C11': 'static facts about ~650 generated table entries and a recorded baseline',
    'C12': 'encode/decode bijection over a few thousand field values',
    'C15': 'print/parse round trip over values; the Print sink cannot fail in a way the statement speaks about',
    'C17': 'modular-arithmetic helpers over small finite domains',
    'C18': 'agreement of two pure functions over an argument grid',
    'C19': 'pure function of third-party library tables and a year range',
}

CHECKS = {
    'C13': {
        'engine': 'simdev',
        'technique': 'deterministic simulation: seeded polling schedules over an injected millis() counter, lock-step reference clock model, ddmin replay',
        'text': 'Seeded search over polling schedules (gaps 1..64536 ms and stalls beyond), start phases, 2^16/2^32 counter wrap, user sets (same value, sentinel), settings that arrive as answers of a reference clock, reboots with a durable RTC; every reading of the real SystemClockLoop is compared with the interval-anchor reference clock T+floor((m-m0)/1000). The quick tier is sampling; the thorough tier adds the exhaustive single-gap product (every start phase x every gap) and a carried-remainder family (`exhaustive_phase_gap_sweep` in the evidence). A clean run is evidence, not proof.',
        'note': 'Trusted: the host shim (Print/pgmspace/AceCommon stubs), clang, the A.1 model in sim/clock.h. unsigned long is 64-bit on this host; only the low 16 bits matter to getNow() and they are fed exactly.',
        'design': '§5.C13, Appendix A.1',
    },
    'C14': {
        'engine': 'simdev',
        'technique': 'deterministic simulation with fault injection: seeded loop() schedules x scripted reference-clock faults, lock-step spec state machine + control clock, bounded liveness after faults stop',
        'text': 'Seeded search over loop() schedules (dense, sparse, jumps to deadlines +/-2 ms) x per-request reference-clock faults (lost, invalid, late, jump, same value, instant, stale datagram, ready-at-timeout race) x 10x6x7 (sync, initial, time-out) configurations (sync 1..65535 s incl. 1, 2, 3, odd values; time-out 0..65535 ms) x reference==backup / distinct / absent, reboots; the real SystemClockLoop is checked call by call against the A.2 spec machine and a control clock, then a fault-free drain must reach a successful sync within one largest period (+ time-out) of polled time. The thorough tier adds a bounded exhaustive enumeration of op sequences (depth 6 / 7).',
        'note': 'Trusted: shim, scripted SimRefClock/SimRtc stubs, the A.2 model. Every schedule runs twice: `plain` (64-bit unsigned long, unwrapped counter) and `plain32` (the four clock headers compiled with `long` read as `int`, counter wraps at 2^32). plain32 is a host stand-in for the target, not the target.',
        'design': '§5.C14, Appendix A.2',
    },
    'C08': {
        'engine': 'simdev',
        'technique': 'deterministic simulation: seeded interleavings of several clients over shared processors and evicting manager caches, fresh-processor / pristine-process reference, ddmin replay; exhaustive ordered-pair sweep of cached-year states; Python ZoneSpecifier histories',
        'text': 'Seeded search over call histories: 2-6 TimeZone clients of every binding kind share 1-2 processors per database or compete for ZoneManager caches of size 1..4; queries of all kinds with in-range, boundary and out-of-range / sentinel arguments, failing queries repeated and interleaved; every answer is compared with two freshly constructed processors in differently poisoned storage. Coverage of (binding, cache state, query, argument class) tuples and of ordered cached-year pairs is measured. Seeded sampling plus, in both tiers, an exhaustive walk of every ordered pair of 223 cached-year states per shipped zone (`sweep08`), reported separately; clients are also created by name through the device\'s one line buffer and may keep ZonedDateTime values.',
        'note': 'Trusted: shim, clang, that a processor constructed with its ZoneInfo is "fresh". Crashes that need no history are noted for C09, not reported here. The Python ZoneSpecifier half is a separate engine (pysim) run by the same command.',
        'design': '§5.C08, Appendix A.3',
    },
    'C09': {
        'engine': 'simdev',
        'technique': 'deterministic simulation with fault injection under ASan+UBSan: whole-device call histories (repeated / interleaved failing queries, reboots, clock faults, torn console lines) with error-persistence and pool monitors; a second seeded simulator under MemorySanitizer; pool-bound sweep over compiler-generated zones',
        'text': 'Decides the history-and-repetition half of C09: seeded whole-device runs (all tz query kinds incl. INT32 extremes, sentinel, invalid components, out-of-range years repeated 0-3 times and then re-asked after a valid neighbouring-year query; console lines cut short or garbled; save/reboot/restore; SystemClockLoop with a faulty reference; queries at the clock\'s current time) in the ASan+UBSan build. Any sanitizer report is attributed by source location; errors must stay errors on every repeat; extended pool high-water < transitionBufSize and < 8; basic dropped-transition counter (guarded hook) stays 0. Two side stages run first: `genm3` sweeps the pool bound over every zone the tree\'s own compiler generates from the reconstructed + synthetic source, `msanprobe` runs a second, standard-library-free seeded simulator under MemorySanitizer (values handed out without having been written). The "for ALL argument values" half and generated zones of arbitrary sources are NOT decided; no-history UB met on the way is still reported.',
        'note': 'Trusted: shim, sanitizer runtimes, the generator\'s knowledge of which arguments are out of range (years <= startYear-3 or >= untilYear+2, sentinel, components the library itself defines invalid). Date -> epoch-seconds conversions of dates outside 1932..2067 are not exercised (input-domain half). UBSan reports a location once per process.',
        'design': '§5.C09',
    },
    'C16': {
        'engine': 'simdev',
        'technique': 'deterministic simulation with crash/restart: save to a durable store, reboot with newly drawn managers / cache sizes / registries, restore; catalogue oracle',
        'text': 'Seeded search over save -> (history, reboot, different cache size, different registry that does or does not contain the id) -> restore sequences for all five zone kinds plus manual/UTC/error; restored value must equal and answer like the one the same manager creates directly, manual offsets must round-trip and always read std+dst, absent ids must give the error zone, and operator== must agree with the catalogue for every pair of live clients after every step.',
        'note': 'Trusted: shim, the simulator\'s catalogue (zone identity = ZoneInfo object, kind = getType()). Nothing is torn in this profile: SAVE copies the TimeZoneData object\'s bytes (what EEPROM.put() does) and RESTORE copies them back, so the restart adds configuration diversity rather than new nondeterminism (DESIGN §5.C16 caveat). Crashes inside plain queries are left to C08/C09.',
        'design': '§5.C16',
    },
    'C20': {
        'engine': 'detcompile',
        'technique': 'deterministic simulation of the compiler\'s environment: tzcompiler.py re-run under seeded perturbations (hash seed, jumping clock, shuffled directory listings, pid, random, TZ, locale, umask, cwd, environment variables, stdio kind, stale outputs, an earlier compilation of another source by the same user, an earlier compilation in the same interpreter, a home directory that is a prefix of a command-line path) and byte comparison of all outputs',
        'text': 'Decides clause 1 only ("compiling the same source twice produces identical files"): the real tzcompiler.py is run in fresh interpreters over a TZ source reconstructed from the zonedbx tables, for scope x language x action-set x year-range configurations, 7 configurations x 8 runs (quick) / 13 x 160 (thorough); run 0 of each configuration is the unperturbed control and every other run must equal it byte for byte (reason lists inside one comment compared as multisets). A difference is reported with the perturbation minimised to the dimensions that matter. Clauses 2-6 are relations between artifacts of one execution: not decided.',
        'note': 'Trusted: the perturbation shim (sitecustomize.py) really intercepts time/datetime (wall clock only; monotonic clocks keep running), os.listdir/os.scandir, os.getpid, random, host and user names, the CPU count and the completion order of pools; the reconstructed source stands in for the original TZ release.',
        'design': '§5.C20',
    },
}

PENDING = {
}


def main():
    checks = []
    for pid in sorted(CHECKS):
        c = CHECKS[pid]
        checks.append({
            'property_id': pid,
            'quick_cmd': 'bin/vcheck %s --tier quick' % pid,
            'thorough_cmd': 'bin/vcheck %s --tier thorough' % pid,
            'evidence_file': '/verif/evidence/%s.json' % pid,
            'replay_cmd_template': 'bin/vcheck replay {path}',
            'engine': c['engine'],
            'level_claimed': {'category': 'exploration', 'text': c['text'], 'design_ref': c['design']},
            'level_note': c['note'],
            'technique': c['technique'],
        })
    na = [{'property_id': k, 'reason': v} for k, v in sorted(NA.items())]
    na += [{'property_id': k, 'reason': v} for k, v in sorted(PENDING.items()) if k not in CHECKS]
    doc = {
        'version': 1,
        'setup_cmd': 'bin/vcheck build',
        'hooks': {
            'guard': 'ACETIME_VERIF',
            'enable': 'env ACETIME_VERIF=1 (set by bin/vcheck) makes orch/build.py compile /repo/src with -DACE_TIME_VERIF_HOOKS=1; without it the hook code is preprocessed away',
            'baseline_off_cmd': 'cd /repo && env -u ACETIME_VERIF /venv/bin/python -m pytest -ra -q -p no:cacheprovider --timeout=900 --continue-on-collection-errors',
            'source_commits': HOOK_COMMITS,
            'add_only': True,
        },
        'engines': [
            {'name': 'simdev', 'path': 'sim/', 'serves_properties': ['C08', 'C09', 'C13', 'C14', 'C16'],
             'kind_free_text': 'C++ simulated AceTime device: real classes from /repo/src + scripted clocks/RTC/EEPROM, seeded trace generator, lock-step reference models'},
            {'name': 'pysim', 'path': 'pysim/', 'serves_properties': ['C08'],
             'kind_free_text': 'Python: seeded call histories on long-lived ZoneSpecifier instances vs fresh instances'},
            {'name': 'detcompile', 'path': 'detcompile/', 'serves_properties': ['C20'],
             'kind_free_text': 'Python: tzcompiler.py re-run under seeded environment perturbations (hash seed, clock, listing order, cwd, locale, environment variables, stdio kind, CPU count, stale outputs, an earlier compilation of another source, being the second compilation of one interpreter)'},
            {'name': 'genm3', 'path': 'genm3/', 'serves_properties': ['C09'],
             'kind_free_text': 'C++ tool built per run: the real processors over every zone generated by the tree\'s own tzcompiler.py, pool high-water vs recorded size (ASan+UBSan)'},
            {'name': 'msanprobe', 'path': 'msan/', 'serves_properties': ['C09'],
             'kind_free_text': 'C++ seeded simulator without the standard library, built per run at -O0 with MemorySanitizer: TimeZone / ZoneManager call histories, every returned value consumed'},
            {'name': 'orch', 'path': 'orch/', 'serves_properties': ['C08', 'C09', 'C13', 'C14', 'C16', 'C20'],
             'kind_free_text': 'Python orchestrator: content-addressed builds from the working tree, parallel batches, crash triage, ddmin, replay files, known findings, evidence'},
        ],
        'checks': checks,
        'not_applicable': na,
        'notes': 'See DESIGN.md. Exit codes: 0 held, 1 VIOLATION, 2 harness error (never a pass, never a violation).',
    }
    with open(os.path.join(VERIF, 'MANIFEST.json'), 'w') as f:
        json.dump(doc, f, indent=1)
    return doc


HOOK_COMMITS = ['823e7548eba69f4a3e730c1657be1dbdf9b4a449']

if __name__ == '__main__':
    main()
    print('MANIFEST.json written')
