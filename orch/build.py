"""Content-addressed builds of simdev from /repo's *current working tree*.

Every input file (all of /repo/src/ace_time, the host shim, the simulator sources) and the
flags are hashed; objects and the binary live under /verif/build/<variant>-<hash>/. An edited
tree therefore always rebuilds and an unchanged one never does.
"""
import hashlib
import os
import shutil
import subprocess
import sys
import time
from concurrent.futures import ThreadPoolExecutor

VERIF = os.path.dirname(os.path.dirname(os.path.abspath(__file__)))
REPO = os.environ.get('VERIF_REPO', '/repo')
BUILD_ROOT = os.path.join(VERIF, 'build')
CXX = 'clang++'

GUARD_ENV = 'ACETIME_VERIF'
HOOK_DEFINE = '-DACE_TIME_VERIF_HOOKS=1'

COMMON = ['-std=gnu++11', '-DUNIX_HOST_DUINO', '-Wno-deprecated-declarations']
VARIANTS = {
    'plain': ['-O2'],
    # AceTime's `unsigned long` compiled as 32 bits, as on every Arduino target (see sim/clock.h)
    'plain32': ['-O2', '-DSIM_ULONG32'],
    'san': ['-O1', '-g', '-fno-omit-frame-pointer', '-fsanitize=address,undefined',
            # UB reports are recoverable: simdev's __ubsan_on_report() hook turns each into a verdict
            # (replay) or a UBHIT line (batch) and execution continues; ASan errors stay fatal.
            '-fsanitize-recover=undefined'],
}


class BuildError(Exception):
    pass


def repo_src():
    return os.path.join(REPO, 'src')


def _lib_sources():
    base = os.path.join(repo_src(), 'ace_time')
    out = []
    for sub in ('', 'common', 'zonedb', 'zonedbx'):
        d = os.path.join(base, sub)
        for f in sorted(os.listdir(d)):
            if f.endswith('.cpp'):
                out.append(os.path.join(d, f))
    return out


def _sim_sources():
    d = os.path.join(VERIF, 'sim')
    return [os.path.join(d, f) for f in sorted(os.listdir(d)) if f.endswith('.cpp')] + \
        [os.path.join(VERIF, 'shim', 'shim.cpp')]


def _all_inputs():
    files = []
    for root, dirs, fs in os.walk(os.path.join(repo_src(), 'ace_time')):
        dirs.sort()
        for f in sorted(fs):
            if f.endswith(('.h', '.cpp', '.inc')):
                files.append(os.path.join(root, f))
    files.append(os.path.join(repo_src(), 'AceTime.h'))
    for d in ('sim', 'shim', os.path.join('shim', 'avr')):
        p = os.path.join(VERIF, d)
        for f in sorted(os.listdir(p)):
            if f.endswith(('.h', '.cpp')):
                files.append(os.path.join(p, f))
    return files


def tree_digest():
    """sha256 over every input file's path and contents."""
    h = hashlib.sha256()
    for f in _all_inputs():
        h.update(f.encode())
        h.update(b'\0')
        with open(f, 'rb') as fh:
            h.update(fh.read())
        h.update(b'\0')
    return h.hexdigest()


def flags(variant, hooks=True):
    fl = COMMON + VARIANTS[variant]
    if hooks:
        fl = fl + [HOOK_DEFINE]
    fl += ['-I' + os.path.join(VERIF, 'shim'), '-I' + repo_src(), '-I' + os.path.join(VERIF, 'sim')]
    return fl


def _prune(keep_dir):
    """Keep the disk footprint small: the 4 newest builds, and any build touched in the last 6 hours."""
    try:
        ds = [os.path.join(BUILD_ROOT, d) for d in os.listdir(BUILD_ROOT)]
    except FileNotFoundError:
        return
    ds = [d for d in ds if os.path.isdir(d) and d != keep_dir and not os.path.basename(d).startswith('work')]
    ds.sort(key=lambda d: os.path.getmtime(d), reverse=True)
    now = time.time()
    for d in ds[3:]:
        # a build touched within the last six hours may belong to a check that is still running (another process, another
        # VERIF_REPO): every use of a cached build refreshes its mtime
        if now - os.path.getmtime(d) > 6 * 3600:
            shutil.rmtree(d, ignore_errors=True)


def build(variant='plain', hooks=True, quiet=False):
    """Returns the path of the simdev binary for the current tree; builds it if needed."""
    t0 = time.time()
    fl = flags(variant, hooks)
    key = hashlib.sha256((tree_digest() + ' '.join(fl)).encode()).hexdigest()[:20]
    out = os.path.join(BUILD_ROOT, '%s-%s' % (variant, key))
    binary = os.path.join(out, 'simdev')
    if os.path.exists(binary):
        os.utime(out, None)
        return binary
    tmp = out + '.tmp%d' % os.getpid()
    shutil.rmtree(tmp, ignore_errors=True)
    os.makedirs(tmp)
    srcs = _lib_sources() + _sim_sources()
    objs = []

    def compile_one(i_src):
        i, src = i_src
        obj = os.path.join(tmp, '%02d_%s.o' % (i, os.path.basename(src)[:-4]))
        p = subprocess.run([CXX] + fl + ['-c', src, '-o', obj], stdout=subprocess.PIPE,
                           stderr=subprocess.STDOUT, text=True, timeout=600)
        return obj, p.returncode, p.stdout

    with ThreadPoolExecutor(max_workers=min(16, os.cpu_count() or 4)) as ex:
        results = list(ex.map(compile_one, list(enumerate(srcs))))
    for obj, rc, log in results:
        if rc != 0:
            shutil.rmtree(tmp, ignore_errors=True)
            raise BuildError('compile failed for %s:\n%s' % (obj, log[-4000:]))
        objs.append(obj)
    link = [CXX] + VARIANTS[variant] + objs + ['-o', os.path.join(tmp, 'simdev')]
    p = subprocess.run(link, stdout=subprocess.PIPE, stderr=subprocess.STDOUT, text=True, timeout=600)
    if p.returncode != 0:
        shutil.rmtree(tmp, ignore_errors=True)
        raise BuildError('link failed:\n' + p.stdout[-4000:])
    for o in objs:
        os.unlink(o)
    try:
        os.rename(tmp, out)
    except OSError:
        shutil.rmtree(tmp, ignore_errors=True)  # another process won the race
    _prune(out)
    if not quiet:
        sys.stderr.write('[build] %s built in %.1fs -> %s\n' % (variant, time.time() - t0, binary))
    return binary


def repo_state():
    def git(*a):
        try:
            return subprocess.run(['git', '-C', REPO] + list(a), stdout=subprocess.PIPE,
                                  stderr=subprocess.DEVNULL, text=True, timeout=30).stdout.strip()
        except Exception:
            return ''
    return {'head': git('rev-parse', 'HEAD'),
            'dirty': bool(git('status', '--porcelain', '--untracked-files=no')),
            'tree_digest': tree_digest()[:16]}


if __name__ == '__main__':
    for v in sys.argv[1:] or ['plain']:
        print(build(v))
