"""Runs tzcompiler.py twice in ONE interpreter: first a prior compilation (another source or another configuration,
into another output directory), then the compilation under test with exactly the argv a direct run has. State a
compiler keeps at module or class level (a cache, a registry, a result list shared by all instances) survives from
the first to the second; a compiler whose output is a function of its source does not notice.

usage: inproc.py <tzcompiler.py> <json list: prior argv[1:]> -- <argv[1:] of the compilation under test>"""
import json
import runpy
import sys


def run(script, argv):
    sys.argv = [script] + list(argv)
    try:
        runpy.run_path(script, run_name='__main__')
    except SystemExit as e:
        if e.code not in (None, 0):
            raise


def main():
    script = sys.argv[1]
    prior = json.loads(sys.argv[2])
    assert sys.argv[3] == '--'
    rest = sys.argv[4:]
    import os
    sys.path.insert(0, os.path.dirname(os.path.abspath(script)))   # what `python tzcompiler.py` does by itself
    try:
        run(script, prior)
    except BaseException:   # a failing prior compilation is a history like any other
        pass
    sys.stdout.flush(); sys.stderr.flush()
    run(script, rest)


if __name__ == '__main__':
    main()
