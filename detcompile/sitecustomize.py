# Environment-perturbation shim, loaded by the interpreter that runs tools/tzcompiler.py when
# DETCOMPILE_SEED is set (PYTHONPATH points here). It takes every uncontrolled input the compiler
# can see away from the real environment and drives it from the seed instead:
#   wall clock      time.time / time.time_ns / datetime.now / utcnow / today jump arbitrarily (also backwards);
#                   time.monotonic / perf_counter keep running forward from a seed-drawn origin
#   listing order   os.listdir / os.scandir results are shuffled
#   randomness      random is reseeded
#   pid             os.getpid returns a seed-derived number
#   host / user     socket.gethostname, platform.node, os.uname().nodename, getpass.getuser, os.getlogin
#   scheduling      os.cpu_count / multiprocessing.cpu_count are seed-drawn; concurrent.futures.as_completed and
#                   Pool.imap_unordered hand their results back in a seed-drawn order
import os

_seed = os.environ.get('DETCOMPILE_SEED')
if _seed is not None:
    import random as _random
    import time as _time
    import datetime as _dt

    _rng = _random.Random(int(_seed))
    _base = _rng.uniform(0, 4e9)
    os.environ.pop('DETCOMPILE_SEED', None)

    def _now():
        global _base
        _base += _rng.choice([0.0, 1e-6, 0.5, 1.0, 59.0, 3600.0, 86400.0 * 400, -86400.0 * 30])
        return _base

    _time.time = _now
    _time.time_ns = lambda: int(_now() * 1e9)
    # the monotonic clocks stay monotonic and real-paced (code that waits on them - a process pool, a lock with a
    # time-out - must keep working); only their origin is seed-drawn. The wall clock is what jumps.
    _mono0 = _rng.uniform(0, 1e6)
    _real_monotonic, _real_perf = _time.monotonic, _time.perf_counter
    _time.monotonic = lambda: _mono0 + _real_monotonic()
    _time.perf_counter = lambda: _mono0 + _real_perf()

    class _FakeDateTime(_dt.datetime):
        @classmethod
        def now(cls, tz=None):
            return cls.fromtimestamp(_now(), tz)

        @classmethod
        def utcnow(cls):
            return cls.utcfromtimestamp(_now())

        @classmethod
        def today(cls):
            return cls.fromtimestamp(_now())

    class _FakeDate(_dt.date):
        @classmethod
        def today(cls):
            return _dt.datetime.fromtimestamp(_now()).date()

    _dt.datetime = _FakeDateTime
    _dt.date = _FakeDate

    _real_listdir = os.listdir
    _real_scandir = os.scandir

    def _listdir(path='.'):
        r = list(_real_listdir(path))
        _rng.shuffle(r)
        return r

    class _Scan(object):
        def __init__(self, path):
            self._it = list(_real_scandir(path))
            _rng.shuffle(self._it)

        def __iter__(self):
            return iter(self._it)

        def __enter__(self):
            return self

        def __exit__(self, *a):
            return False

        def close(self):
            pass

    os.listdir = _listdir
    os.scandir = lambda path='.': _Scan(path)
    # a seed-drawn pid that still tells a forked child from its parent (multiprocessing depends on that)
    _pid = _rng.randint(2, 4000000)
    _real_getpid = os.getpid
    _pid_at_load = _real_getpid()
    os.getpid = lambda: _pid + (_real_getpid() - _pid_at_load)
    # who / where: host name and user name
    _host = 'host%d' % _rng.randint(0, 9999)
    _user = 'user%d' % _rng.randint(0, 9999)
    try:
        import socket as _socket
        _socket.gethostname = lambda: _host
        _socket.getfqdn = lambda name='': _host + '.example'
    except Exception:
        pass
    try:
        import platform as _platform
        _platform.node = lambda: _host
    except Exception:
        pass
    try:
        import getpass as _getpass
        _getpass.getuser = lambda: _user
    except Exception:
        pass
    os.getlogin = lambda: _user
    _real_uname = os.uname

    def _uname():
        u = _real_uname()
        return os.uname_result((u.sysname, _host, u.release, u.version, u.machine))
    os.uname = _uname
    _random.seed(_rng.getrandbits(64))

    # scheduling: results of a pool come back in a seed-drawn order, and the machine has a seed-drawn number of CPUs
    _cpus = _rng.choice([1, 2, 3, 4, 8, 16, 64])
    os.cpu_count = lambda: _cpus
    try:
        os.sched_getaffinity  # noqa
        _real_aff = os.sched_getaffinity
        os.sched_getaffinity = lambda pid=0: set(range(_cpus))
    except AttributeError:
        pass
    try:
        import concurrent.futures as _cf
        _real_as_completed = _cf.as_completed

        def _as_completed(fs, timeout=None):
            done = list(_real_as_completed(list(fs), timeout=timeout))
            _rng.shuffle(done)
            return iter(done)
        _cf.as_completed = _as_completed
        _real_wait = _cf.wait

        def _wait(fs, timeout=None, return_when=_cf.ALL_COMPLETED):
            r = _real_wait(fs, timeout=timeout, return_when=_cf.ALL_COMPLETED)
            return r
        _cf.wait = _wait
    except Exception:
        pass
    try:
        import multiprocessing as _mp
        import multiprocessing.pool as _mpp

        def _imap_unordered(self, func, iterable, chunksize=1):
            res = list(self.imap(func, iterable, chunksize))
            _rng.shuffle(res)
            return iter(res)
        _mpp.Pool.imap_unordered = _imap_unordered
        _mp.cpu_count = lambda: _cpus
    except Exception:
        pass
