"""C20 clause 1: compiling the same source twice produces identical files, under every environment
nondeterminism the compiler can see. The real tools/tzcompiler.py runs as a subprocess of
/venv/bin/python; the seed draws the perturbations of each run."""
import ast
import hashlib
import json
import os
import random
import re
import shutil
import subprocess
import sys
import tempfile
import time
from concurrent.futures import ThreadPoolExecutor

from orch import core as K
from orch import build as B
from . import reconstruct as R

HERE = os.path.dirname(os.path.abspath(__file__))
PY = '/venv/bin/python' if os.path.exists('/venv/bin/python') else sys.executable

CONFIGS = {
    # name: (scope, language, actions, start, until)
    'x-ar-2050': ('extended', 'arduino', 'zonedb,zonelist,tzdb', 2000, 2050),
    'b-ar-2050': ('basic', 'arduino', 'zonedb,zonelist,tzdb', 2000, 2050),
    'x-py-2050': ('extended', 'python', 'zonedb,zonelist', 2000, 2050),
    'b-py-2038': ('basic', 'python', 'zonedb,tzdb', 2000, 2038),
    'x-ar-2038': ('extended', 'arduino', 'zonedb', 2000, 2038),
    'b-ar-2038': ('basic', 'arduino', 'tzdb,zonelist,zonedb', 2000, 2038),
    'x-py-2038': ('extended', 'python', 'tzdb,zonedb,zonelist', 2000, 2038),
    'b-py-2050': ('basic', 'python', 'zonelist,zonedb', 2000, 2050),
    # further flag combinations (thorough tier)
    'x-ar-strings': ('extended', 'arduino', 'zonedb,tzdb', 2000, 2050, ['--generate_zone_strings']),
    'b-ar-strings': ('basic', 'arduino', 'zonedb', 2000, 2050, ['--generate_zone_strings']),
    'b-ar-strict': ('basic', 'arduino', 'zonedb,tzdb,zonelist', 2000, 2050, ['--strict']),
    'x-py-gran900': ('extended', 'python', 'zonedb,tzdb', 2000, 2050, ['--granularity', '900']),
    'b-py-gran1': ('basic', 'python', 'zonedb,tzdb,zonelist', 1990, 2050, ['--until_at_granularity', '1', '--offset_granularity', '1']),
}
QUICK = ['x-ar-2050', 'b-ar-2050', 'x-py-2050', 'b-py-2038', 'x-ar-strings', 'b-ar-strict', 'b-py-gran1']

TZS = ['UTC', 'America/Los_Angeles', 'Asia/Kolkata', 'Pacific/Kiritimati', 'Europe/London']
def _installed_locales():
    """Only locales that exist here: a program that calls setlocale(LC_ALL, '') must not die on a made-up name."""
    want = ['C', 'C.UTF-8', 'POSIX', 'en_US.UTF-8', 'tr_TR.UTF-8', 'de_DE.UTF-8']
    try:
        have = subprocess.run(['locale', '-a'], stdout=subprocess.PIPE, text=True, timeout=20).stdout.split()
    except Exception:
        have = []
    norm = {h.lower().replace('-', ''): h for h in have}
    out = [w for w in want if w.lower().replace('-', '') in norm]
    return out or ['C']


LANGS = _installed_locales()

# (variable, value) pairs switched on by the bits of perturbation['env_extra']
ENV_EXTRA = [('COLUMNS', '37'), ('LINES', '11'), ('PYTHONUTF8', '1'), ('PYTHONIOENCODING', 'latin-1'),
             ('SOURCE_DATE_EPOCH', '86400'), ('LC_NUMERIC', 'de_DE.UTF-8'), ('LC_COLLATE', 'tr_TR.UTF-8'),
             ('TERM', 'dumb'), ('NO_COLOR', '1'), ('PYTHONOPTIMIZE', '1'), ('PYTHONUNBUFFERED', '1'),
             ('PYTHONWARNINGS', 'ignore'), ('PYTHONWARNINGS', 'error::DeprecationWarning'), ('SHELL', '/bin/false'), ('PWD', '/nonexistent/pwd')]


def perturbation(seed, index):
    rng = random.Random('%d/%d' % (seed, index))
    return {
        'index': index,
        'hashseed': 0 if index == 0 else rng.randrange(1, 2 ** 32),
        'shim_seed': rng.randrange(2 ** 32),
        'tz': rng.choice(TZS),
        'lang': rng.choice(LANGS),
        'umask': rng.choice([0o022, 0o077, 0o002, 0o000]),
        'cwd_depth': rng.randint(0, 4),
        'shim': index != 0 and rng.random() < 0.8,   # run 0 is the unperturbed control
        'stale_outputs': index != 0 and rng.random() < 0.4,  # output directory already holds older files
        'home_user': 0 if index == 0 else rng.randint(0, 3),  # HOME / USER / LOGNAME / HOSTNAME / TMPDIR variants
        # the same user compiled a DIFFERENT source earlier with the same command line, in the same directory, home
        # and temporary directory (a per-user or per-directory cache, a leftover work file, would carry over)
        'prior_other': index != 0 and rng.random() < 0.35,
        # further process environment a program can see without asking for it: terminal geometry, encoding and
        # collation defaults, reproducible-build clock, where stdout / stderr go, whether the input directory is
        # reached through a symbolic link
        'env_extra': 0 if index == 0 else rng.randrange(0, 1 << len(ENV_EXTRA)),
        'stdio': 'pipe' if index == 0 else rng.choice(['pipe', 'file', 'null', 'tty']),
        'input_link': True if index == 0 else rng.random() < 0.6,
        # file-system facts about input and output that are not content: modification times of the input files (only
        # when the input is a copy), the output directory being a symbolic link
        'input_mtimes': 0 if index == 0 else rng.randrange(0, 1 << 30),
        'out_link': index != 0 and rng.random() < 0.3,
        # the compilation under test is the SECOND one of its interpreter (a build script or a test harness that calls
        # the compiler's main() repeatedly): 1 = the decoy source with the same flags first, 2 = the same source with
        # the other scope first; both into another output directory (detcompile/inproc.py). Drawn last, so that every
        # other dimension of a given (seed, index) is what it was before this one existed.
        'inproc_prior': 0 if index == 0 else (rng.choice([1, 2]) if rng.random() < 0.3 else 0),
        # the user's home directory is a prefix of a path on the command line (the compiler is always started as
        # <root>/u/tools/tzcompiler.py, a symbolic link to the tree's tools directory; in these runs HOME is <root>/u):
        # whoever abbreviates, expands or relativises paths against the home directory shows it
        'home_prefix': index != 0 and rng.random() < 0.25,
    }


def compile_once(repo, src, workdir, cfg, pert, _prior=False):
    scope, language, actions, start, until = CONFIGS[cfg][:5]
    extra = list(CONFIGS[cfg][5]) if len(CONFIGS[cfg]) > 5 else []
    # the same script path in every run of a check (it is part of the recorded invocation), reached through a
    # directory that some runs have as their home directory
    udir = os.path.join(os.path.dirname(src), 'u')
    os.makedirs(udir, exist_ok=True)
    try:
        os.symlink(os.path.join(repo, 'tools'), os.path.join(udir, 'tools'))
    except FileExistsError:
        pass
    cwd = workdir
    for d in range(pert['cwd_depth']):
        cwd = os.path.join(cwd, 'd%d' % d)
    os.makedirs(cwd, exist_ok=True)
    # identical command line in every run: the invocation string is copied into the headers by design
    if pert.get('prior_other') and not _prior:
        # history fault: first compile the decoy source (same names, other contents) here, then remove its outputs
        compile_once(repo, src + '-decoy', workdir, cfg, dict(pert, stale_outputs=False), _prior=True)
        if os.path.islink(os.path.join(cwd, 'out')):
            shutil.rmtree(os.path.join(cwd, 'out.real'), ignore_errors=True)
            os.makedirs(os.path.join(cwd, 'out.real'), exist_ok=True)
        else:
            shutil.rmtree(os.path.join(cwd, 'out'), ignore_errors=True)
        if os.path.islink(os.path.join(cwd, 'in')):
            os.unlink(os.path.join(cwd, 'in'))
        else:
            shutil.rmtree(os.path.join(cwd, 'in'))
    if not os.path.lexists(os.path.join(cwd, 'in')):
        if pert.get('input_link', True):
            os.symlink(src, os.path.join(cwd, 'in'))
        else:
            shutil.copytree(src, os.path.join(cwd, 'in'))
            if pert.get('input_mtimes'):
                r2 = random.Random(pert['input_mtimes'])
                for name in sorted(os.listdir(os.path.join(cwd, 'in'))):
                    t = r2.uniform(1.0e9, 1.7e9)
                    os.utime(os.path.join(cwd, 'in', name), (t, t))
    out = os.path.join(cwd, 'out')
    if pert.get('out_link') and not os.path.lexists(out):
        os.makedirs(os.path.join(cwd, 'out.real'), exist_ok=True)
        os.symlink('out.real', out)
    os.makedirs(out, exist_ok=True)
    if pert.get('stale_outputs'):
        for name in ('zone_infos.h', 'zone_infos.cpp', 'zone_infos.py', 'zone_policies.h', 'zone_policies.py',
                     'zone_registry.cpp', 'zones.txt', 'tzdb.json', '__init__.py'):
            # an older output is typically LONGER or SHORTER than the new one (other scope, other year range,
            # other release); plant both kinds, so that a writer that fails to truncate, appends, or skips
            # existing files leaves a trace
            big = (pert['shim_seed'] + len(name)) % 2 == 0
            # ... and it may have passed through another platform's tools: CR LF line ends, a byte-order mark
            flavour = (pert['shim_seed'] // 7 + len(name)) % 4
            eol = b'\r\n' if flavour in (1, 3) else b'\n'
            with open(os.path.join(out, name), 'wb') as f:
                if flavour == 2:
                    f.write(b'\xef\xbb\xbf')
                f.write(b'// stale output of an earlier compilation (%d)' % pert['shim_seed'] + eol)
                if big:
                    f.write((b'// stale line' + eol) * 120000)   # ~1.7 MB, longer than anything the compiler emits
    env = {k: v for k, v in os.environ.items() if not k.startswith(('PYTHON', 'LC_', 'LANG'))}
    env.update({'PYTHONHASHSEED': str(pert['hashseed']), 'TZ': pert['tz'], 'LANG': pert['lang'],
                'LC_ALL': pert['lang'], 'PYTHONDONTWRITEBYTECODE': '1'})
    hu = pert.get('home_user', 0)
    # every run has a private, writable, initially empty home and temporary directory inside its work directory:
    # nothing is read from or left in the real account, and what one compilation leaves there is seen by the next
    # compilation of the same run only (the prior_other fault)
    env.update({'HOME': os.path.join(workdir, 'home%d' % hu), 'TMPDIR': os.path.join(workdir, 'tmp%d' % hu)})
    for k in ('XDG_CACHE_HOME', 'XDG_CONFIG_HOME', 'XDG_DATA_HOME', 'XDG_STATE_HOME'):
        env.pop(k, None)
    os.makedirs(env['HOME'], exist_ok=True)
    os.makedirs(env['TMPDIR'], exist_ok=True)
    if pert.get('home_prefix'):
        env['HOME'] = udir
    if hu:
        env.update({'USER': 'builder%d' % hu, 'LOGNAME': 'builder%d' % hu, 'HOSTNAME': 'buildhost%d' % hu})
        if hu == 3:
            env['XDG_CACHE_HOME'] = os.path.join(workdir, 'xdgcache')
    have_locales = set(LANGS)
    for bit, (k, v) in enumerate(ENV_EXTRA):
        if pert.get('env_extra', 0) >> bit & 1:
            if k.startswith('LC_') and v not in have_locales:
                continue
            if k.startswith('LC_'):
                env.pop('LC_ALL', None)   # LC_ALL would override the single category
            env[k] = v
    if pert['shim']:
        env['PYTHONPATH'] = HERE
        env['DETCOMPILE_SEED'] = str(pert['shim_seed'])
    script = os.path.join(udir, 'tools', 'tzcompiler.py')
    args = ['--input_dir', 'in', '--output_dir', 'out',
            '--tz_version', '2020d', '--action', actions, '--language', language, '--scope', scope,
            '--start_year', str(start), '--until_year', str(until)] + extra
    cmd = [PY, script] + args
    ip = 0 if _prior else pert.get('inproc_prior', 0)
    if ip:
        prior_in = os.path.join(cwd, 'in-prior')
        if os.path.lexists(prior_in):
            os.unlink(prior_in)
        os.symlink(src + '-decoy' if ip == 1 else src, prior_in)
        shutil.rmtree(os.path.join(cwd, 'out-prior'), ignore_errors=True)
        os.makedirs(os.path.join(cwd, 'out-prior'))
        other = {'basic': 'extended', 'extended': 'basic'}[scope]
        pargs = ['--input_dir', 'in-prior', '--output_dir', 'out-prior',
                 '--tz_version', '2020d', '--action', actions, '--language', language, '--scope',
                 scope if ip == 1 else other, '--start_year', str(start), '--until_year', str(until)] + extra
        # sys.argv of the second compilation is exactly that of a direct run (the invocation is copied into headers)
        cmd = [PY, os.path.join(HERE, 'inproc.py'), script, json.dumps(pargs), '--'] + args
    # the umask is applied inside the child (the parent's is process-wide and this function runs on 16 threads)
    cmd = ['sh', '-c', 'umask %03o; exec "$@"' % pert['umask'], 'sh'] + cmd
    stdio = pert.get('stdio', 'pipe')
    errtext = ''
    # The compiler runs in a session of its own, so that on a time-out the whole group (a compiler that starts worker
    # processes leaves them behind otherwise) can be killed; its output goes to files or to a pseudo-terminal.
    outp, errp = os.path.join(workdir, 'stdout.txt'), os.path.join(workdir, 'stderr.txt')
    master = slave = None
    fo = fe = None
    try:
        if stdio == 'tty':
            import pty
            master, slave = pty.openpty()
            proc = subprocess.Popen(cmd, cwd=cwd, env=env, stdin=slave, stdout=slave, stderr=slave, close_fds=True,
                                    start_new_session=True)
            os.close(slave)
            slave = None
        elif stdio == 'null':
            proc = subprocess.Popen(cmd, cwd=cwd, env=env, stdin=subprocess.DEVNULL, stdout=subprocess.DEVNULL,
                                    stderr=subprocess.DEVNULL, start_new_session=True)
        else:
            # 'file', and 'pipe' as well: a pipe to the compiler's stdout / stderr that is drained by cat into the files
            fo, fe = open(outp, 'wb'), open(errp, 'wb')
            if stdio == 'pipe':
                proc = subprocess.Popen(cmd, cwd=cwd, env=env, stdin=subprocess.DEVNULL, stdout=subprocess.PIPE,
                                        stderr=subprocess.PIPE, start_new_session=True)
            else:
                proc = subprocess.Popen(cmd, cwd=cwd, env=env, stdin=subprocess.DEVNULL, stdout=fo, stderr=fe,
                                        start_new_session=True)
        deadline = time.time() + 600
        chunks = []
        timed_out = False
        if stdio == 'tty':
            import select
            while True:
                if time.time() > deadline:
                    timed_out = True
                    break
                r, _w, _x = select.select([master], [], [], 1.0)
                if not r:
                    if proc.poll() is not None:
                        break
                    continue
                try:
                    b = os.read(master, 65536)
                except OSError:
                    break
                if not b:
                    break
                chunks.append(b)
            errtext = b''.join(chunks).decode('utf-8', 'replace')
        elif stdio == 'pipe':
            try:
                so, se = proc.communicate(timeout=600)
                errtext = se.decode('utf-8', 'replace')
            except subprocess.TimeoutExpired:
                timed_out = True
        if not timed_out:
            try:
                rc = proc.wait(timeout=max(1, deadline - time.time()))
            except subprocess.TimeoutExpired:
                timed_out = True
        if timed_out:
            try:
                os.killpg(proc.pid, 9)
            except OSError:
                pass
            try:
                proc.wait(timeout=10)
            except Exception:
                pass
            raise K.HarnessError('tzcompiler did not finish within 600 s (cfg %s, perturbation %s)' % (cfg, pert))
        if stdio in ('file',):
            fe.flush()
            with open(errp, errors='replace') as f2:
                errtext = f2.read()
    finally:
        for fd in (master, slave):
            if fd is not None:
                try:
                    os.close(fd)
                except OSError:
                    pass
        for fh in (fo, fe):
            if fh is not None:
                fh.close()
    if rc != 0:
        if _prior and pert.get('index', 0) != 0:
            return {}   # an earlier compilation that failed is a history like any other
        if pert.get('index', 0) == 0:
            # the unperturbed control must work, else nothing can be compared
            raise K.HarnessError('tzcompiler failed (cfg %s, perturbation %s):\n%s' % (cfg, pert, errtext[-2000:]))
        # Warnings turned into errors make the interpreter itself stricter: a compiler that merely stops with a
        # traceback then has produced no files rather than different ones. If the same perturbation without that one
        # variable compiles, the run is dropped from the comparison (and counted).
        wbit = [i for i, (k, v) in enumerate(ENV_EXTRA) if k == 'PYTHONWARNINGS' and v.startswith('error')]
        if wbit and (pert.get('env_extra', 0) >> wbit[0]) & 1 and not _prior:
            p2 = dict(pert, env_extra=pert['env_extra'] & ~(1 << wbit[0]))
            shutil.rmtree(workdir, ignore_errors=True)
            files2 = compile_once(repo, src, workdir, cfg, p2)
            if '<compiler exit status>' not in files2:
                return {'<dropped: fails only with warnings as errors>': b''}
        # the same source and command line compile in the control and FAIL here: that is a difference in outcome, reported
        # like a difference in the files
        return {'<compiler exit status>': ('exit %d: %s' % (rc, errtext[-300:].replace('\n', ' | '))).encode()}
    files = {}
    stale_marker = b'stale output of an earlier compilation'
    for f in sorted(os.listdir(out)):
        with open(os.path.join(out, f), 'rb') as fh:
            data = fh.read()
        if pert.get('stale_outputs') and stale_marker in data[:80]:
            continue   # a planted file this configuration does not emit
        files[f] = data
    return files


_REASON_RE = re.compile(r'^(\s*(?://|#)\s*\S+\s*)\((.*)\)\s*$')


def canonical(data):
    """The one canonicalisation the property allows: inside a comment line of the form
    '// <name> (<r1>, <r2>, ...)' the reasons are compared as a multiset."""
    out = []
    for line in data.decode('utf-8', 'replace').split('\n'):
        m = _REASON_RE.match(line)
        if m:
            body = m.group(2).strip()
            toks = None
            if body.startswith('[') and body.endswith(']'):
                # the Python-language generator prints the reasons as the repr of a list
                try:
                    val = ast.literal_eval(body)
                    if isinstance(val, (list, tuple, set)):
                        toks = sorted(str(t).strip() for t in val)
                except (ValueError, SyntaxError):
                    toks = sorted(t.strip().strip('\'"') for t in body[1:-1].split(','))
            if toks is None:
                toks = sorted(t.strip() for t in body.split(','))
            line = m.group(1) + '(' + ', '.join(toks) + ')'
        out.append(line)
    return '\n'.join(out)


def first_difference(a, b):
    la, lb = a.split('\n'), b.split('\n')
    for i in range(max(len(la), len(lb))):
        x = la[i] if i < len(la) else '<EOF>'
        y = lb[i] if i < len(lb) else '<EOF>'
        if x != y:
            return i + 1, x, y
    return None


def compare(ref, other):
    """Returns None or (file, line, ref_line, other_line)."""
    if sorted(ref) != sorted(other):
        return ('<file set>', 0, ','.join(sorted(ref)), ','.join(sorted(other)))
    for f in sorted(ref):
        if ref[f] == other[f]:
            continue
        ca, cb = canonical(ref[f]), canonical(other[f])
        if ca != cb:
            d = first_difference(ca, cb)
            return (f, d[0], d[1], d[2])
    return None


def run(prop, tier, verif_seed):
    t0 = time.time()
    repo = B.REPO
    cfgs = QUICK if tier == 'quick' else sorted(CONFIGS)
    nruns = 8 if tier == 'quick' else 160
    root = tempfile.mkdtemp(prefix='detcompile-')
    violations = 0
    exit_code = 0
    stats = {'compilations': 0, 'files_compared': 0, 'bytes_compared': 0, 'reason_lines_canonicalised': 0,
             'raw_byte_differences_excused': 0}
    fault_counts = {'second_compilation_of_its_interpreter': 0, 'home_is_prefix_of_a_command_line_path': 0, 'input_mtimes_changed': 0, 'output_dir_is_symlink': 0, 'env_extra_variables': 0, 'stdio_not_a_pipe': 0, 'input_dir_not_a_symlink': 0, 'prior_compile_of_other_source': 0, 'home_user_host_changed': 0, 'stale_outputs_present': 0, 'hashseed_changed': 0, 'clock_jumping': 0, 'listing_shuffled': 0, 'tz_changed': 0,
                    'locale_changed': 0, 'cwd_depth_changed': 0, 'umask_changed': 0}
    samples = []
    distinct = set()
    try:
        src = os.path.join(root, 'src')
        recon = R.reconstruct(repo, src)
        R.reconstruct(repo, src + '-decoy', decoy=True)
        jobs = [(c, perturbation(verif_seed, i)) for c in cfgs for i in range(nruns)]

        def job(cp):
            c, p = cp
            wd = os.path.join(root, 'w-%s-%d' % (c, p['index']))
            files = compile_once(repo, src, wd, c, p)
            shutil.rmtree(wd, ignore_errors=True)
            return c, p, files

        with ThreadPoolExecutor(max_workers=min(16, os.cpu_count() or 4)) as ex:
            results = list(ex.map(job, jobs))
        by_cfg = {}
        for c, p, files in results:
            if '<dropped: fails only with warnings as errors>' in files:
                stats['dropped_fail_under_warnings_as_errors'] = stats.get('dropped_fail_under_warnings_as_errors', 0) + 1
                if p['index'] != 0:
                    continue
            by_cfg.setdefault(c, []).append((p, files))
            stats['compilations'] += 1
            distinct.add((c, p['hashseed'] != 0, p['shim'], p['tz'], p['lang'], p['cwd_depth'], p['umask']))
            if p.get('stale_outputs'):
                fault_counts['stale_outputs_present'] += 1
            if p.get('home_user'):
                fault_counts['home_user_host_changed'] += 1
            if p.get('prior_other'):
                fault_counts['prior_compile_of_other_source'] += 1
            if p.get('inproc_prior'):
                fault_counts['second_compilation_of_its_interpreter'] += 1
            if p.get('home_prefix'):
                fault_counts['home_is_prefix_of_a_command_line_path'] += 1
            if p.get('env_extra'):
                fault_counts['env_extra_variables'] += 1
            if p.get('stdio', 'pipe') != 'pipe':
                fault_counts['stdio_not_a_pipe'] += 1
            if not p.get('input_link', True):
                fault_counts['input_dir_not_a_symlink'] += 1
                if p.get('input_mtimes'):
                    fault_counts['input_mtimes_changed'] += 1
            if p.get('out_link'):
                fault_counts['output_dir_is_symlink'] += 1
            if p['hashseed'] != 0:
                fault_counts['hashseed_changed'] += 1
            if p['shim']:
                fault_counts['clock_jumping'] += 1
                fault_counts['listing_shuffled'] += 1
            if p['tz'] != 'UTC':
                fault_counts['tz_changed'] += 1
            if p['lang'] != 'C':
                fault_counts['locale_changed'] += 1
            if p['cwd_depth']:
                fault_counts['cwd_depth_changed'] += 1
            if p['umask'] != 0o022:
                fault_counts['umask_changed'] += 1
        for c in cfgs:
            runs = sorted(by_cfg[c], key=lambda r: r[0]['index'])
            ref_p, ref = runs[0]
            for p, files in runs[1:]:
                for f in files:
                    stats['files_compared'] += 1
                    stats['bytes_compared'] += len(files[f])
                    if f in ref and files[f] != ref[f]:
                        stats['raw_byte_differences_excused'] += 1
                d = compare(ref, files)
                if d and exit_code == 0:
                    # minimise the perturbation: which single dimension suffices?
                    minimal = minimise_perturbation(repo, src, root, c, ref, p, ref_p)
                    path = write_replay(prop, tier, verif_seed, c, ref_p, minimal, d)
                    print('VIOLATION property=%s replay=%s' % (prop, path))
                    K.log('[%s] config %s: %s line %d differs between two compilations of the same source:\n  %s\n  %s'
                          % (prop, c, d[0], d[1], d[2][:200], d[3][:200]))
                    violations += 1
                    exit_code = 1
            if len(samples) < 3:
                samples.append({'config': c, 'command': 'tzcompiler.py --input_dir in --output_dir out --tz_version 2020d '
                                '--action %s --language %s --scope %s --start_year %d --until_year %d'
                                % (CONFIGS[c][2], CONFIGS[c][1], CONFIGS[c][0], CONFIGS[c][3], CONFIGS[c][4]),
                                'perturbations': [r[0] for r in runs[:3]],
                                'files': {f: hashlib.sha256(ref[f]).hexdigest()[:16] for f in sorted(ref)}})
            for f in ref:
                stats['reason_lines_canonicalised'] += sum(1 for l in ref[f].decode('utf-8', 'replace').split('\n')
                                                           if _REASON_RE.match(l) and ',' in l)
    finally:
        shutil.rmtree(root, ignore_errors=True)
    wall = time.time() - t0
    doc = {
        'property_id': prop, 'tier': tier, 'seed': verif_seed, 'level': 'exploration',
        'coverage': {
            'evaluations': stats['compilations'],
            'distinct_nontrivial': len([d for d in distinct if d[1] or d[2]]),
            'rule': ('Each evaluation is one complete run of tools/tzcompiler.py in a fresh interpreter over the TZ source '
                     'reconstructed from the Rule/Zone/Link lines recorded in src/ace_time/zonedbx, under a seed-drawn '
                     'environment (PYTHONHASHSEED, jumping wall clock, shuffled os.listdir/scandir, reseeded random, fake pid, '
                     'TZ, locale, umask, cwd depth, host/user names, stale output files, an earlier compilation of a '
                     'DIFFERENT source by the same user in the same directory / home / tmp) with an identical command line. Every emitted file of every run is compared '
                     'byte for byte with the unperturbed control run of its configuration (reason lists inside one comment '
                     'compared as multisets). A run is non-trivial when its hash seed differs from the control or the '
                     'clock/listing shim is active; distinct_nontrivial counts distinct (configuration, perturbation) tuples.'),
            'samples': samples,
            'configurations': cfgs,
            'runs_per_configuration': nruns,
            'source': recon,
            'runs_per_hour': int(stats['compilations'] / wall * 3600) if wall > 0 else 0,
            'fault_counts': fault_counts,
            'files_compared': stats['files_compared'],
            'bytes_compared': stats['bytes_compared'],
            'files_equal_only_after_reason_canonicalisation': stats['raw_byte_differences_excused'],
            'runs_dropped_because_the_compiler_stops_under_warnings_as_errors': stats.get('dropped_fail_under_warnings_as_errors', 0),
            'components': {'real': ['tools/tzcompiler.py', 'tools/tzdb/*', 'tools/zonedb/{argenerator,pygenerator,zonelistgenerator,bufestimator,zone_specifier}.py'],
                           'stub': ['detcompile/sitecustomize.py (clock, listing order, pid, random)',
                                    'TZ source reconstructed from zonedbx comments (not the original 2020d release)'],
                           'not_run': ['tools/validate.py, tools/zinfo.py, compare_* (need pytz/dateutil/zic round trips)']},
            'exhaustive': False,
        },
        'assumptions': [
            'clause 1 of C20 only (same source compiled twice -> identical files); clauses 2-6 relate artifacts of one '
            'execution and contain no nondeterminism: not decided here',
            'since Python 3.7 dict order is insertion order, so only set/frozenset iteration, hash(), id(), time, pid and '
            'filesystem order can leak; that narrow class is what is perturbed',
        ],
        'wall_s': round(wall, 2), 'violations': violations,
    }
    K.write_evidence(prop, doc)
    K.log('[%s] %s tier: %d compilations, %d configurations, %.1fs, exit %d'
          % (prop, tier, stats['compilations'], len(cfgs), wall, exit_code))
    return exit_code


def minimise_perturbation(repo, src, root, cfg, ref, pert, base):
    """Delta-debug the perturbation: reset one dimension at a time to the control's value while the
    outputs still differ."""
    cur = dict(pert)
    n = [0]
    for dim in ('shim', 'stale_outputs', 'prior_other', 'inproc_prior', 'home_prefix', 'env_extra', 'stdio', 'input_link', 'input_mtimes', 'out_link', 'home_user', 'tz', 'lang', 'umask', 'cwd_depth', 'hashseed'):
        trial = dict(cur)
        trial[dim] = base[dim]
        if trial == cur:
            continue
        n[0] += 1
        wd = os.path.join(root, 'min-%d' % n[0])
        files = compile_once(repo, src, wd, cfg, trial)
        shutil.rmtree(wd, ignore_errors=True)
        if compare(ref, files):
            cur = trial
    return cur


def write_replay(prop, tier, verif_seed, cfg, ref_p, pert, diff):
    os.makedirs(K.REPLAYS, exist_ok=True)
    path = os.path.join(K.REPLAYS, '%s-detcompile-%s-%d.json' % (prop, cfg, pert['index']))
    doc = {'property': prop, 'engine': 'detcompile', 'tier': tier, 'verif_seed': verif_seed, 'config': cfg,
           'violation_class': 'c20-nondeterministic-output',
           'message': '%s line %d: %r vs %r' % (diff[0], diff[1], diff[2][:300], diff[3][:300]),
           'control_perturbation': ref_p, 'minimised_perturbation': pert, 'repo': B.repo_state(),
           'minimised_trace': 'compile %s twice: control %s vs %s' % (cfg, json.dumps(ref_p), json.dumps(pert)),
           'replay_cmd': '/verif/bin/vcheck replay %s' % path}
    with open(path, 'w') as f:
        json.dump(doc, f, indent=1)
    return path


def replay(doc, path):
    repo = B.REPO
    root = tempfile.mkdtemp(prefix='detcompile-')
    try:
        src = os.path.join(root, 'src')
        R.reconstruct(repo, src)
        R.reconstruct(repo, src + '-decoy', decoy=True)
        a = compile_once(repo, src, os.path.join(root, 'a'), doc['config'], doc['control_perturbation'])
        b = compile_once(repo, src, os.path.join(root, 'b'), doc['config'], doc['minimised_perturbation'])
        d = compare(a, b)
    finally:
        shutil.rmtree(root, ignore_errors=True)
    print('replay of %s (%s): %s' % (path, doc['property'], doc['minimised_trace']))
    if d:
        print('REPRODUCED: %s line %d\n  %s\n  %s' % (d[0], d[1], d[2][:300], d[3][:300]))
        print('VIOLATION property=%s replay=%s' % (doc['property'], path))
        return 1
    print('not reproduced on the current tree')
    return 0
