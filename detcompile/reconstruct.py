"""Reconstructs a TZ-database source tree from the raw Rule / Zone / Link lines that the generator
recorded as comments beside every entry of the shipped zonedbx tables. The result is a valid input
for tools/tzcompiler.py (387 zones, ~540 rule lines, ~200 links); it is not the original 2020d
release (eras that end before 2000 are absent), which does not matter for a determinism check.
On top of that come clearly named synthetic `Verif/*` entries (ties, colliding names, several reasons per item, eras
that end part-way through a month, policies that change late in the range); everything is spread over the nine files
of a TZ release; `decoy=True` writes a different source with the same names (each zone carries the next zone's eras)."""
import os
import re

ZONE_FILES = ['africa', 'antarctica', 'asia', 'australasia', 'backward', 'etcetera', 'europe',
              'northamerica', 'southamerica']


def reconstruct(repo, out_dir, decoy=False):
    base = os.path.join(repo, 'src', 'ace_time', 'zonedbx')
    rules = []
    with open(os.path.join(base, 'zone_policies.cpp')) as f:
        for line in f:
            m = re.match(r'\s*//\s*(Rule\s+.*)$', line)
            if m:
                rules.append('\t'.join(m.group(1).split()))
    zones = []
    with open(os.path.join(base, 'zone_infos.cpp')) as f:
        lines = f.read().split('\n')
    name = None
    in_eras = False
    first = True
    for line in lines:
        m = re.match(r'// Zone name: (\S+)', line)
        if m:
            name = m.group(1)
            first = True
            continue
        if 'ZoneEra kZoneEra' in line and line.rstrip().endswith('{'):
            in_eras = True
            continue
        if in_eras and line.startswith('};'):
            in_eras = False
            continue
        if in_eras:
            m = re.match(r'  //\s+(\S.*)$', line)
            if m and name:
                body = '\t'.join(m.group(1).split())
                zones.append(('Zone\t%s\t%s' % (name, body)) if first else ('\t\t\t' + body))
                first = False
    links = []
    with open(os.path.join(base, 'zone_infos.h')) as f:
        for line in f:
            m = re.search(r'//\s*(\S+)\s*->\s*(\S+)\s*$', line)
            if m:
                links.append('Link\t%s\t%s' % (m.group(2), m.group(1)))
    # Synthetic additions (clearly named) so that the source also contains what the shipped tables do not:
    # identical twins (ties), multi-letter LETTERs, zones and policies that are removed or flagged for
    # several reasons at once (the "several reasons inside one comment" case of the property), links to twins.
    rules += [
        'Rule\tVerifA\t2001\tmax\t-\tMar\tlastSun\t2:00\t1:00\tD',
        'Rule\tVerifA\t2001\tmax\t-\tOct\tlastSun\t2:00\t0\tS',
        'Rule\tVerifB\t2001\tmax\t-\tMar\tlastSun\t2:00\t1:00\tDD',
        'Rule\tVerifB\t2001\tmax\t-\tOct\tlastSun\t2:00\t0\tSS',
        'Rule\tVerifC\t2001\tmax\t-\tMar\t1\t0:00\t0:20\tD',
        'Rule\tVerifC\t2001\tmax\t-\tMar\t20\t2:00u\t0\tS',
        'Rule\tVerifC\t2003\tonly\t-\tJan\t1\t0:00\t1:00\tXYZ',
        'Rule\tVerifC\t2005\tmax\t-\tSep\tSun>=8\t2:01\t0:07\tW',
    ]
    zones += [
        'Zone\tVerif/Twin1\t1:00\tVerifA\tVT%sT',
        'Zone\tVerif/Twin2\t1:00\tVerifA\tVT%sT',
        'Zone\tVerif/Letters\t-3:00\tVerifB\tV%sL',
        'Zone\tVerif/Multi\t1:07\tVerifA\tX%sX\t2005\tMar\t10\t2:01s',
        '\t\t\t2:13\tVerifC\tY%sY\t2010\tJan\t1\t0:00',
        '\t\t\t2:00\t-\tYY',
        'Zone\tVerif/Trunc\t0:13\t-\tTA\t2005',
        '\t\t\t1:07\t0:20\tTB\t2009',
        '\t\t\t1:00\tVerifA\tT%sT',
        'Zone\tVerif/Odd\t0:13\tVerifC\tO%sO\t2004\tFeb\t29\t23:59',
        '\t\t\t0:00\t0:20\tOO',
    ]
    # more tie shapes: a policy that duplicates another one, the same multi-letter LETTER in two policies, format
    # strings that differ only in case, two rules of one policy with identical sort keys, a link to a link's
    # target under a second name, zones sharing one format string
    rules += [
        'Rule\tVerifA2\t2001\tmax\t-\tMar\tlastSun\t2:00\t1:00\tD',
        'Rule\tVerifA2\t2001\tmax\t-\tOct\tlastSun\t2:00\t0\tS',
        'Rule\tVerifD\t2001\tmax\t-\tApr\tSun>=1\t2:00\t1:00\tDD',
        'Rule\tVerifD\t2001\tmax\t-\tOct\tlastSun\t2:00\t0\tSS',
        'Rule\tVerifD\t2004\tonly\t-\tJul\t1\t0:00\t1:00\tDD',
        'Rule\tVerifD\t2004\tonly\t-\tJul\t1\t0:00\t1:00\tSS',
    ]
    zones += [
        'Zone\tVerif/Twin3\t1:00\tVerifA2\tVT%sT',
        'Zone\tVerif/CaseUp\t3:00\tVerifD\tVQ%sT',
        'Zone\tVerif/CaseLo\t3:00\tVerifD\tvq%st',
    ]
    links += ['Link\tVerif/Twin3\tVerif/Alias3', 'Link\tVerif/Twin3\tVerif/alias3']
    # names that differ only in '-' / '_' (the compiler maps both to '_' in identifiers and must keep exactly
    # one of each colliding group, always the same one), among themselves and against a stock name
    zones += [
        'Zone\tVerif/Abc-Def\t1:00\t-\tVA',
        'Zone\tVerif/Abc_Def\t2:00\t-\tVB',
        'Zone\tAmerica/Port_au_Prince\t-5:00\t-\tVP',
    ]
    links += ['Link\tVerif/Twin1\tVerif/Link-A', 'Link\tVerif/Twin2\tVerif/Link_A']
    # names longer than any shipped one (last component of exactly 16 and of 40 characters; the longest shipped short
    # name has 14): whatever a name-handling routine assumes about lengths is put to the test by generated zones
    zones += [
        'Zone\tVerif/Sixteen_Chars_16\t1:00\tVerifA\tVS%sT',
        'Zone\tVerif/Observatory1234_Annex_Building_West_Wing\t-2:00\tVerifA\tVO%sT',
    ]
    # several reasons on ONE item in EVERY scope (round 8): a zone with two UNTIL times and a STDOFF carrying seconds
    # (truncated under every granularity the configurations use), a policy with two AT times and a SAVE carrying
    # seconds, and a zone that uses it
    rules += [
        'Rule\tVerifE\t2001\tmax\t-\tMar\tlastSun\t2:00:30\t1:00\tD',
        'Rule\tVerifE\t2001\tmax\t-\tOct\tlastSun\t2:00:45\t0\tS',
        'Rule\tVerifE\t2003\tonly\t-\tJun\t1\t1:00:07\t0:30:20\tH',
    ]
    zones += [
        'Zone\tVerif/XMulti\t1:00:13\tVerifA\tX%sX\t2005\tMar\t10\t2:00:30',
        '\t\t\t1:00\tVerifA\tX%sX\t2008\tMar\t10\t3:00:45',
        '\t\t\t1:00\tVerifA\tX%sT',
        'Zone\tVerif/PolicyE\t2:00\tVerifE\tE%sT',
    ]
    # eras that end part-way through a month (in particular December: the era still matches the first days of the
    # following year) followed by an era with a DST policy - the shapes that decide how many transition slots a
    # year needs (C09 third sentence, compiler-generated zones)
    for mon, day, hh in (('Dec', 15, '0:00'), ('Dec', 31, '23:00'), ('Jan', 2, '0:00'), ('Jun', 15, '12:00'),
                         ('Mar', 28, '2:00'), ('Oct', 31, '1:00'), ('Nov', 1, '0:00')):
        zones += [
            'Zone\tVerif/End%s%d\t3:00\t-\t+03\t2010\t%s\t%d\t%s' % (mon, day, mon, day, hh),
            '\t\t\t3:00\tVerifA\tE%sT',
            'Zone\tVerif/Two%s%d\t2:00\tVerifD\tF%%sT\t2010\t%s\t%d\t%s' % (mon, day, mon, day, hh),
            '\t\t\t3:00\tVerifA\tG%sT\t2011\tDec\t20',
            '\t\t\t2:00\tVerifD\tF%sT',
        ]
    links += ['Link\tVerif/Twin1\tVerif/Alias1', 'Link\tVerif/Twin1\tVerif/Alias2', 'Link\tVerif/Multi\tVerif/AliasM',
              'Link\tVerif/Nowhere\tVerif/Dangling']
    # policies that become busier in the LAST years of the compiled range (real data has no rule changes after
    # ~2020): what the compiler computes per year and then takes the maximum of - buffer sizes - then depends on
    # whether the trailing years are really looked at
    for tag, yr in (('36', 2036), ('48', 2048)):
        rules += [
            'Rule\tVerifL%s\t2001\t%d\t-\tMar\tlastSun\t2:00\t1:00\tD' % (tag, yr - 1),
            'Rule\tVerifL%s\t2001\t%d\t-\tOct\tlastSun\t2:00\t0\tS' % (tag, yr - 1),
            'Rule\tVerifL%s\t%d\tmax\t-\tFeb\tSun>=1\t2:00\t1:00\tD' % (tag, yr),
            'Rule\tVerifL%s\t%d\tmax\t-\tMay\tSun>=1\t2:00\t0\tS' % (tag, yr),
            'Rule\tVerifL%s\t%d\tmax\t-\tAug\tSun>=1\t2:00\t1:00\tD' % (tag, yr),
            'Rule\tVerifL%s\t%d\tmax\t-\tNov\tSun>=1\t2:00\t0\tS' % (tag, yr),
        ]
        zones += ['Zone\tVerif/Late%s\t4:00\tVerifL%s\tL%%sT' % (tag, tag)]
    # a Rule whose TYPE column (ignored by zic since 2020b, and by this compiler) is not '-'
    rules += [
        'Rule\tVerifT\t2001\t2010\t-\tMar\tlastSun\t2:00\t1:00\tD',
        'Rule\tVerifT\t2001\t2010\t-\tOct\tlastSun\t2:00\t0\tS',
        'Rule\tVerifT\t2011\tmax\teven\tApr\tSun>=1\t2:00\t1:00\tD',
        'Rule\tVerifT\t2011\tmax\todd\tSep\tlastSun\t2:00\t0\tS',
    ]
    zones += ['Zone\tVerif/Typed\t5:00\tVerifT\tY%sT']
    if decoy:
        # a DIFFERENT source with the same names: every Zone name gets the eras of the next zone (cyclic), so that
        # anything an earlier compilation remembered per name (sizes, ids, strings) is wrong for the real source
        heads = [i for i, z in enumerate(zones) if z.startswith('Zone\t')]
        names = [zones[i].split('\t')[1] for i in heads]
        for k, i in enumerate(heads):
            parts = zones[i].split('\t')
            parts[1] = names[(k + 1) % len(names)]
            zones[i] = '\t'.join(parts)
    os.makedirs(out_dir, exist_ok=True)
    # Spread over the nine files of a TZ release, like the real thing: zones by region, policies by a checksum of
    # their name, every fourth policy with its Rule lines split over two files, links in `backward`. In which order
    # the compiler visits the files then matters (a directory listing is in no particular order).
    import zlib
    region_files = [n for n in ZONE_FILES if n != 'backward']
    content = {n: [] for n in ZONE_FILES}

    def crc(text):
        return zlib.crc32(text.encode())

    def zone_file(name):
        top = name.split('/')[0]
        fixed = {'Africa': 'africa', 'Indian': 'africa', 'Antarctica': 'antarctica', 'Asia': 'asia', 'Australia': 'australasia',
                 'Pacific': 'australasia', 'Europe': 'europe', 'Atlantic': 'europe', 'Etc': 'etcetera'}
        if top in fixed:
            return fixed[top]
        if top == 'America':
            return 'northamerica' if crc(name) % 2 else 'southamerica'
        return region_files[crc(name) % len(region_files)]

    policy_names = sorted({r.split('\t')[1] for r in rules})
    split_policies = {n for i, n in enumerate(policy_names) if i % 4 == 0}
    seen = {}
    for r in rules:
        pn = r.split('\t')[1]
        k = seen.get(pn, 0)
        seen[pn] = k + 1
        first = region_files[crc(pn) % len(region_files)]
        second = region_files[(crc(pn) // 7 + 3) % len(region_files)]
        content[second if (pn in split_policies and k % 2 == 1) else first].append(r)
    cur = None
    for z in zones:
        if z.startswith('Zone\t'):
            cur = zone_file(z.split('\t')[1])
        content[cur].append(z)
    content['backward'] += links
    for n in ZONE_FILES:
        with open(os.path.join(out_dir, n), 'w') as f:
            f.write('# reconstructed from src/ace_time/zonedbx comments (+ synthetic Verif/* entries)\n')
            f.write('\n'.join(content[n]) + '\n')
    return {'rules': len(rules), 'zones': sum(1 for z in zones if z.startswith('Zone')), 'links': len(links)}


if __name__ == '__main__':
    import sys
    print(reconstruct(sys.argv[1], sys.argv[2]))
